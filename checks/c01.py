"""C01 - ensemble function values are the normalized weighted estimate over realizations.

Boundary: FunctionResults returned by the real EnsembleEvaluator.calculate for generated
configurations; oracle: estimator reference model (vlib.models) applied to the values the
recording evaluator returned, with the weights in force (configured, or the reported
filter row); metamorphic re-executions (batch vs single, other functions perturbed)."""
from __future__ import annotations

import numpy as np

from vlib import ens, models
from vlib.build import rng_for

PROPERTY = "C01"
LEVEL = "exploration"
TECHNIQUE = "runtime monitoring: recording evaluator + reference estimator model on every FunctionResults; metamorphic re-execution (batch layout, other functions' values)"
LEVEL_TEXT = ("3e3 (quick) / 6e4 (thorough) generated configurations (R<=7, 1-3 objectives, 0-3 constraints, zero/negative weights, mean/stddev maps, "
              "0-3 filters of all kinds next to unfiltered functions, NaN patterns) each evaluated single, batched and with another function perturbed; "
              "every reported value compared to 1e-10 with an independent model")
LEVEL_NOTE = "trusted: vlib.models estimators; whether a filter's row itself is right is C04/C05's job; stddev with <2 positive weights and filter-induced aborts are C14's"
ANCHOR_FILES = ["src/ropt/ensemble_evaluator/_function.py", "src/ropt/ensemble_evaluator/_ensemble_evaluator.py",
                "src/ropt/plugins/function_estimator/default.py"]
EXECUTION_COUNTERS = ["values_compared"]   # executions of the oracle inside the cases (reported as coverage.evaluations)
CONTRACT_GROUPS = ['C01']   # icontract layer (vlib/contracts.py) active inside the workload and in the repository's own tests
RULE = ("case = one generated configuration + point(s); non-trivial if functions were reported and at least one value was compared; "
        "distinct key = case index; monitor_counters.values_compared counts individual numbers checked")
ASSUMPTIONS = ["the weight row reported in Realizations for a filtered function is the filter's output (checked for correctness by C04/C05)"]
REQUIRED = {"quick": {"values_compared": 8000, "unfiltered_next_to_filtered": 300, "batch_compared": 1000, "bump_compared": 500, "with_nan": 300, "cases_with_single_precision_evaluator_output": 250, "mean_values_under_surviving_weights_with_negative_sum": 40, "filter_rows_cross_checked": 1500, "history_calls_compared": 5000, "combined_path_function_results_judged": 1500, "__nontrivial__": 1246},
            "thorough": {"values_compared": 150000, "unfiltered_next_to_filtered": 5000, "batch_compared": 20000, "bump_compared": 10000, "with_nan": 5000, "cases_with_single_precision_evaluator_output": 5000, "mean_values_under_surviving_weights_with_negative_sum": 800, "filter_rows_cross_checked": 30000, "history_calls_compared": 100000, "combined_path_function_results_judged": 30000, "__nontrivial__": 25268}}
N = {"quick": 3000, "thorough": 60000}
TOL = 1e-10


def cases(tier, seed):
    for i in range(N[tier]):
        yield {"i": i}


def gen_spec(rng):
    R = int(rng.integers(1, 8))
    n_obj, n_con = int(rng.integers(1, 4)), int(rng.integers(0, 4))
    V = int(rng.integers(1, 4))
    spec = {"V": V, "R": R, "rweights": ens.gen_weights(rng, R, wide=True), "oweights": ens.gen_oweights(rng, n_obj),
            "n_con": n_con, "x0": [0.0] * V, "ensemble": {"kind": "hash", "salt": float(rng.uniform(0, 10))}}
    if n_con:
        spec["con_lb"] = [-np.inf] * n_con
        spec["con_ub"] = [float(x) for x in rng.normal(size=n_con)]
    if rng.random() < 0.15:
        spec["out_dtype"] = "float32"
    if rng.random() < 0.55:
        ests = [["mean", "stddev"], ["stddev", "mean"], ["mean", "stddev", "mean"], ["stddev"]][int(rng.integers(4))]
        spec["estimators"] = ests
        spec["estimator_spelling"] = int(rng.integers(4))       # stddev / default/stddev / Default/Stddev / STDDEV
        spec["omap_est"] = [int(x) for x in rng.integers(0, len(ests), size=n_obj)]
        if n_con and rng.random() < 0.8:
            spec["cmap_est"] = [int(x) for x in rng.integers(0, len(ests), size=n_con)]
    nf = int(rng.choice([0, 1, 2, 3], p=[0.3, 0.3, 0.25, 0.15]))
    if nf:
        spec["filters"], spec["omap_f"], spec["cmap_f"] = ens.gen_filters(rng, R, n_obj, n_con, nf)
        if rng.random() < 0.2:
            spec["omap_f"] = None
        elif n_con and rng.random() < 0.2:
            spec["cmap_f"] = None
    if not spec.get("estimators") and not spec.get("filters") and R >= 2 and rng.random() < 0.25:
        # mixed-sign realization weights are valid as long as their sum is positive
        w = np.array(spec["rweights"], dtype=float)
        k = int(rng.integers(R))
        w[k] = -w[k] * 0.5
        if w.sum() > 0.3 * np.abs(w).sum() and w[k] != 0:
            spec["rweights"] = w.tolist()
    if rng.random() < 0.2:
        # outputs with a large common offset (cumulative volumes, monetary values): the spread is what a standard deviation is about
        spec["ensemble"]["offset"] = float(rng.choice([1e4, 1e6, 1e8]))
    if rng.random() < 0.2:
        # the same outputs in other units: an estimate is as exact for values of order 1e-9 as for values of order 1e9
        spec["ensemble"]["unit"] = float(10.0 ** rng.choice([-12, -9, -6, 6, 9]))
    spec["rmin"] = int(rng.integers(0, R + 1))
    nan = []
    if rng.random() < 0.45:
        F = n_obj + n_con
        for r in range(R):
            if rng.random() < 0.3:
                nan.append({"call": None, "r": r, "p": -1, "col": int(rng.integers(F))})
    spec["nan"] = nan
    if not spec.get("estimators") and not spec.get("filters") and R >= 3 and rng.random() < 0.06:
        # mixed-sign weights and a failure of the realization with the largest weight: the surviving weights sum to a negative number
        spec["rweights"] = [3.0, 1.0, -2.0] + [0.0] * (R - 3)
        spec["nan"] = [{"call": None, "r": 0, "p": -1, "col": 0}]
        spec["rmin"] = int(rng.integers(0, 3))
    return spec


def too_few_explained(spec, cfg, res, allv, failed, gradient=False):
    """True if a mapped filter selects no positive weight or a stddev function has < 2 positive weights in force
    (too few realizations for filters / estimators); None if it cannot be told (ties); False otherwise."""
    n_obj = len(spec["oweights"])
    n_con = spec.get("n_con", 0)
    configured = np.asarray(cfg.realizations.weights)
    own = np.asarray(cfg.objectives.weights)
    ambiguous = False
    used = set()
    for m in (spec.get("omap_f"), spec.get("cmap_f")):
        if m is not None:
            used |= {f for f in m if f >= 0}
    rows_o, rows_c = res.realizations.objective_weights, res.realizations.constraint_weights
    filters_ok = True
    for f in sorted(used):
        flt = spec["filters"][f]
        o = flt["options"]
        if flt["method"].startswith("cvar"):
            if failed.all():
                return True
            continue
        if flt["method"].endswith("objective"):
            key = np.nan_to_num(allv[:, o["sort"]]) @ own[o["sort"]]
        else:
            key = np.nan_to_num(allv[:, n_obj + o["sort"]])
        pos = models.sort_window_positive(key, failed, configured, o["first"], o["last"])
        if pos is False:
            return True
        if pos is None:
            ambiguous = True
    ests = spec.get("estimators") or ["mean"]
    for j in range(n_obj + n_con):
        isobj = j < n_obj
        jj = j if isobj else j - n_obj
        emap = spec.get("omap_est") if isobj else spec.get("cmap_est")
        est = ests[emap[jj]] if emap is not None else ests[0]
        if est != "stddev":
            continue
        fmap = spec.get("omap_f") if isobj else spec.get("cmap_f")
        rows = rows_o if isobj else rows_c
        if fmap is not None and fmap[jj] >= 0:
            if rows is None:
                ambiguous = True
                continue
            wforce = np.asarray(rows[jj])
        else:
            wforce = configured
        if np.count_nonzero(np.where(failed, 0.0, wforce) > 0) < 2:
            return True
    return None if ambiguous else False


def _filter_output(cfg, fidx, allv, failed, n_obj):
    from ropt.exceptions import OptimizationAborted  # noqa: PLC0415

    prop = np.where(failed[:, None], np.nan, allv)
    flt = ens.plugin_manager().get_plugin("realization_filter", cfg.realization_filters[fidx].method).create(cfg, fidx)
    try:
        return np.asarray(flt.get_realization_weights(prop[:, :n_obj], prop[:, n_obj:] if prop.shape[1] > n_obj else None))
    except OptimizationAborted:
        return None


def expected_functions(obs, spec, cfg, res, objs, cons):
    """Compare one FunctionResults with the model. objs/cons: raw evaluator values for this vector."""
    n_obj = objs.shape[1]
    n_con = 0 if cons is None else cons.shape[1]
    allv = objs if cons is None else np.hstack([objs, cons])
    failed = np.isnan(allv).any(axis=1)
    R = failed.size
    rep_failed = np.asarray(res.realizations.failed_realizations)
    if not np.array_equal(rep_failed, failed):
        obs.violation("failed_flags", reported=rep_failed, expected=failed)
        return False
    enough = int((~failed).sum()) >= ens.rmin_of(spec)
    if not enough:
        obs.count("below_min_success")
        obs.check(res.functions is None, "functions_reported_below_min_success")
        return False
    if res.functions is None:
        # enough successes for the threshold: functions may only be missing if a filter or estimator had too few
        why = too_few_explained(spec, cfg, res, allv, failed)
        if why is None:
            obs.count("functions_missing_ambiguous")
        elif why:
            obs.count("functions_missing_explained_by_filter_or_estimator")
        else:
            obs.violation("functions_missing", failed=failed, rmin=ens.rmin_of(spec), filters=spec.get("filters"),
                          estimators=spec.get("estimators"))
        return False
    if failed.all():
        obs.count("all_failed_nan_expected")
        ok = np.all(np.isnan(res.functions.objectives)) and np.isnan(res.functions.weighted_objective)
        obs.check(bool(ok), "all_failed_not_nan", objectives=res.functions.objectives)
        return False
    configured = np.asarray(cfg.realizations.weights)
    ests = spec.get("estimators") or ["mean"]
    want = np.empty(n_obj + n_con)
    for j in range(n_obj + n_con):
        isobj = j < n_obj
        jj = j if isobj else j - n_obj
        fmap = spec.get("omap_f") if isobj else spec.get("cmap_f")
        emap = spec.get("omap_est") if isobj else spec.get("cmap_est")
        rows = res.realizations.objective_weights if isobj else res.realizations.constraint_weights
        filtered = fmap is not None and fmap[jj] >= 0
        if filtered:
            if rows is None:
                obs.violation("weight_rows_missing", function=j)
                return False
            wforce = np.asarray(rows[jj])
            # the row must be what the filter *mapped to this function* produces on these values (the filter's own
            # correctness is C04/C05's job): ask the real filter object directly
            wf = _filter_output(cfg, fmap[jj], allv, failed, n_obj)
            if wf is not None:
                obs.count("filter_rows_cross_checked")
                if not np.array_equal(wforce, wf):
                    obs.violation("row_is_not_the_output_of_the_mapped_filter", function=j, filter=int(fmap[jj]), row=wforce, filter_output=wf,
                                  omap_f=spec.get("omap_f"), cmap_f=spec.get("cmap_f"))
                    return False
        else:
            wforce = configured
            if fmap is not None or (spec.get("filters") and (spec.get("omap_f") or spec.get("cmap_f"))):
                if any(m is not None and any(v >= 0 for v in m) for m in (spec.get("omap_f"), spec.get("cmap_f"))):
                    obs.count("unfiltered_next_to_filtered")
        if not np.any(np.where(failed, 0.0, wforce) > 0):
            # no realization with positive weight survived: the quantifier excludes this (C03/C14 territory)
            obs.count("no_positive_weight_survivor")
            return False
        surv = np.where(failed, 0.0, wforce)
        est_name = ests[emap[jj]] if emap is not None else ests[0]
        if abs(surv.sum()) <= 0.1 * np.abs(surv).sum() or (surv.sum() < 0 and est_name != "mean"):
            obs.count("trivial.surviving_weights_cancel")
            return False
        if surv.sum() < 0:
            # the surviving weights sum to a negative number (clearly away from zero): normalized is normalized, the weighted mean
            # is the mean under the weights divided by their sum
            obs.count("mean_values_under_surviving_weights_with_negative_sum")
        if np.any(surv < 0):
            obs.count("with_negative_realization_weight")
        w = models.norm_weights(wforce, failed)
        est = ests[emap[jj]] if emap is not None else ests[0]
        vals = allv[:, j]
        if est == "mean":
            want[j] = models.est_mean(vals, w)
        else:
            sd = models.est_stddev(vals, w)
            if sd is None:
                obs.violation("stddev_value_with_less_than_two", function=j, w=w)
                return False
            want[j] = sd
        obs.feature(f"est.{est}.{'filtered' if filtered else 'plain'}")
    got = np.concatenate([np.asarray(res.functions.objectives), np.asarray(res.functions.constraints) if n_con else np.zeros(0)])
    ok = True
    for j in range(n_obj + n_con):
        obs.count("values_compared")
        # (rounding of the inputs themselves: a few ulp of the largest value that enters the estimate)
        big = float(np.nanmax(np.abs(np.where(np.isnan(allv[:, j]), 0.0, allv[:, j])))) if allv.size else 0.0
        if big > 1e3:
            obs.count("values_with_large_common_offset_compared")
        unit = float(spec["ensemble"].get("unit", 1.0))
        if unit != 1.0:
            obs.count("values_in_other_units_compared")
        if not abs(got[j] - want[j]) <= TOL * (min(1.0, unit) + abs(want[j])) + 256 * np.finfo(float).eps * big:
            obs.violation("function_value", function=j, got=float(got[j]), want=float(want[j]), failed=failed,
                          configured=configured, values=allv[:, j])
            ok = False
    ow = np.asarray(cfg.objectives.weights)
    wo = float(np.dot(ow, want[:n_obj]))
    obs.count("values_compared")
    if not abs(float(res.functions.weighted_objective) - wo) <= TOL * (min(1.0, float(spec["ensemble"].get("unit", 1.0))) + abs(wo)) + 256 * np.finfo(float).eps * float(np.nanmax(np.abs(np.where(np.isnan(allv), 0.0, allv)))) if allv.size else 0.0:
        obs.violation("weighted_objective", got=float(res.functions.weighted_objective), want=wo, oweights=ow)
        ok = False
    if abs(ow.sum() - 1) > 1e-12:
        obs.violation("objective_weights_not_normalized", ow=ow)
    return ok


def run_case(case, obs):
    from ropt.ensemble_evaluator import EnsembleEvaluator  # noqa: PLC0415
    from ropt.exceptions import OptimizationAborted  # noqa: PLC0415

    rng = rng_for(obs.seed, "c01", case["i"])
    spec = gen_spec(rng)
    case["spec"] = spec
    cfg = ens.make_config(spec)
    pm = ens.plugin_manager()
    n_obj, n_con, R = len(spec["oweights"]), spec["n_con"], spec["R"]
    B = int(rng.integers(1, 5))
    X = rng.normal(size=(B, spec["V"]))
    if spec["nan"]:
        obs.count("with_nan")
    if spec.get("filters"):
        obs.feature("has_filters")
    if spec.get("out_dtype"):
        obs.count("cases_with_single_precision_evaluator_output")
    if 0.0 in spec["rweights"]:
        obs.feature("zero_realization_weight")

    def run(xs, bump=None):
        ev = ens.RecordingEvaluator(spec)
        if bump is not None:
            col, delta = bump
            orig = ev.ens.values

            def values(Xv, rs, F):
                out = orig(Xv, rs, F)
                out[:, col] += delta
                return out

            ev.ens.values = values
        ee = EnsembleEvaluator(cfg, None, ev, pm)
        try:
            res = ee.calculate(np.array(xs), compute_functions=True, compute_gradients=False)
        except OptimizationAborted:
            return None, ev
        return res, ev

    singles = []
    for b in range(B):
        res, ev = run(X[b])
        if res is None:
            obs.count("aborted_by_filter_or_estimator")
            singles.append(None)
            continue
        call = ev.calls[0]
        objs = call.objectives
        cons = call.constraints
        ok = expected_functions(obs, spec, cfg, res[0], objs, cons)
        if ok:
            obs.nontrivial(case["i"])
        singles.append(res[0])
    # batch layout
    if B > 1:
        resb, evb = run(X)
        if resb is None:
            obs.check(any(s is None for s in singles), "batch_aborts_but_singles_do_not")
        else:
            obs.check(len(resb) == B, "batch_result_count", got=len(resb), want=B)
            for b, (rb, rs) in enumerate(zip(resb, singles)):
                if rs is None or rs.functions is None or rb.functions is None:
                    if rs is not None and (rs.functions is None) != (rb.functions is None):
                        obs.violation("batch_vs_single_presence", index=b)
                    continue
                obs.count("batch_compared")
                for name in ("objectives", "constraints", "weighted_objective"):
                    a, c = getattr(rb.functions, name), getattr(rs.functions, name)
                    if a is None:
                        continue
                    if not np.allclose(a, c, rtol=1e-12, atol=1e-12, equal_nan=True):
                        obs.violation("batch_vs_single", index=b, field=name, batch=a, single=c)
    # other functions perturbed: functions that neither are k nor rank on k stay bit-identical
    base = singles[0]
    if base is not None and base.functions is not None and n_obj + n_con > 1:
        k = int(rng.integers(n_obj + n_con))
        res2, _ = run(X[0], bump=(k, float(rng.choice([-7.5, 3.25, 1000.0]))))
        if res2 is not None and res2[0].functions is not None:
            r2 = res2[0]
            for j in range(n_obj + n_con):
                if j == k:
                    continue
                isobj = j < n_obj
                jj = j if isobj else j - n_obj
                fmap = spec.get("omap_f") if isobj else spec.get("cmap_f")
                if fmap is not None and fmap[jj] >= 0 and k in ens.filter_keys(spec, fmap[jj]):
                    continue
                a = (base.functions.objectives if isobj else base.functions.constraints)[jj]
                b2 = (r2.functions.objectives if isobj else r2.functions.constraints)[jj]
                obs.count("bump_compared")
                if not (a == b2 or (np.isnan(a) and np.isnan(b2))):
                    obs.violation("influenced_by_other_function", function=j, bumped=k, before=float(a), after=float(b2))
    # the function part of a combined function+gradient evaluation: perturbations that fail (even whole realizations that
    # fail through their perturbations only) do not change the function values
    specc = dict(spec)
    specc["pmin"] = int(rng.integers(1, 4))
    specc["nan"] = list(spec["nan"]) + [{"call": None, "r": int(r), "p": int(k), "col": int(rng.integers(n_obj + n_con))}
                                        for r in range(R) for k in range(3) if rng.random() < 0.3]
    cfgc = ens.make_config(specc)
    evc = ens.RecordingEvaluator(specc)
    try:
        resc = EnsembleEvaluator(cfgc, None, evc, pm).calculate(X[0], compute_functions=True, compute_gradients=True)
    except OptimizationAborted:
        resc = None
    if resc is not None and len(evc.calls) == 1:
        c0 = evc.calls[0]
        unp = c0.perturbations < 0
        obs.count("combined_path_function_results_judged")
        expected_functions(obs, specc, cfgc, resc[0], c0.objectives[unp], None if c0.constraints is None else c0.constraints[unp])
        s0 = singles[0]
        if s0 is not None and s0.functions is not None and resc[0].functions is not None:
            for name in ("objectives", "constraints", "weighted_objective"):
                a, c = getattr(resc[0].functions, name), getattr(s0.functions, name)
                if a is not None and not np.array_equal(a, c, equal_nan=True):
                    obs.violation("combined_path_functions_differ_from_function_only", field=name, combined=a, function_only=c,
                                  nan_rules=specc["nan"], pmin=specc["pmin"])
    # one evaluator object (its filters and estimators) serves a history of evaluations whose values and failure pattern
    # change from call to call: every result equals the one a fresh evaluator computes for that call alone
    H = int(rng.integers(2, 5))
    XH = rng.normal(size=(H, spec["V"]))
    F = n_obj + n_con
    per_call = [[{"call": None, "r": int(r), "p": -1, "col": int(rng.integers(F))} for r in range(R) if rng.random() < 0.25] for _ in range(H)]
    hist = dict(spec)
    hist["nan"] = [dict(rule, call=k) for k, rules in enumerate(per_call) for rule in rules]
    evh = ens.RecordingEvaluator(hist)
    eeh = EnsembleEvaluator(cfg, None, evh, pm)
    for k in range(H):
        try:
            (rh,) = eeh.calculate(XH[k], compute_functions=True, compute_gradients=False)
        except OptimizationAborted:
            rh = None
        one = dict(spec)
        one["nan"] = per_call[k]
        ev1 = ens.RecordingEvaluator(one)
        try:
            (r1,) = EnsembleEvaluator(cfg, None, ev1, pm).calculate(XH[k], compute_functions=True, compute_gradients=False)
        except OptimizationAborted:
            r1 = None
        obs.count("history_calls_compared")
        if (rh is None) != (r1 is None) or (rh is not None and (rh.functions is None) != (r1.functions is None)):
            obs.violation("history_vs_fresh_presence", call=k, history=None if rh is None else rh.functions is not None,
                          fresh=None if r1 is None else r1.functions is not None, nan_rules=per_call)
            break
        if rh is None:
            continue
        bad = None
        for name in ("failed_realizations", "objective_weights", "constraint_weights"):
            a, c = getattr(rh.realizations, name), getattr(r1.realizations, name)
            if (a is None) != (c is None) or (a is not None and not np.array_equal(a, c, equal_nan=True)):
                bad = ("realizations." + name, a, c)
        if rh.functions is not None:
            for name in ("objectives", "constraints", "weighted_objective"):
                a, c = getattr(rh.functions, name), getattr(r1.functions, name)
                if (a is None) != (c is None) or (a is not None and not np.array_equal(a, c, equal_nan=True)):
                    bad = ("functions." + name, a, c)
        if bad is not None:
            obs.violation("history_vs_fresh", call=k, field=bad[0], history=bad[1], fresh=bad[2], nan_rules=per_call)
            break
        if k and rh.functions is not None:
            # the fresh result of this call is itself judged against the reference model
            c0 = ev1.calls[0]
            expected_functions(obs, one, cfg, r1, c0.objectives, c0.constraints)
    obs.sample({"R": R, "n_obj": n_obj, "n_con": n_con, "rweights": spec["rweights"], "filters": spec.get("filters"),
                "omap_f": spec.get("omap_f"), "estimators": spec.get("estimators"), "nan_rules": len(spec["nan"]), "batch": B})
