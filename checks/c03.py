"""C03 - failed realizations and perturbations are excluded exactly as if absent.

Fault enumeration: an evaluator wrapper writes NaN into a chosen column of every row in a
chosen subset of {(r, unperturbed)} u {(r, k)}; all subsets for small ensembles, all
threshold pairs.  Oracles: failure flags + presence gate (reference), values (C01/C02
reference restricted to survivors), differential run on the really reduced ensemble,
garbage invariance of failed rows, exit code of a real optimizer step."""
from __future__ import annotations

import itertools

import numpy as np

from checks.c01 import expected_functions
from checks.c02 import judge_gradient
from vlib import ens
from vlib.build import rng_for

PROPERTY = "C03"
LEVEL = "fault_enumeration"
TECHNIQUE = "runtime monitoring under injected faults: exhaustive NaN-failure subsets x threshold pairs on the real evaluator/optimizer step; reference gate + differential re-execution on the reduced ensemble + garbage invariance"
LEVEL_TEXT = ("every failure subset of the (realization, unperturbed|perturbation) grid for R<=3,P<=2 (quick) / R,P<=3 (thorough) x every (realization_min_success, "
              "perturbation_min_success) pair x configuration variants (estimators, filters, merged), NaN column rotated; sampled for R,P<=6; flags, presence, values, "
              "reduced-ensemble differential, garbage invariance and optimizer exit code judged on each")
LEVEL_NOTE = "trusted: reference gate in this file, C01/C02 value oracles; gradient values only judged under C02's conditioning premise; value comparison needs a positive-weight survivor"
ANCHOR_FILES = ["src/ropt/ensemble_evaluator/_utils.py", "src/ropt/ensemble_evaluator/_evaluator_results.py", "src/ropt/ensemble_evaluator/_ensemble_evaluator.py",
                "src/ropt/ensemble_evaluator/_function.py", "src/ropt/ensemble_evaluator/_gradient.py", "src/ropt/optimization/_optimizer.py"]
EXECUTION_COUNTERS = ["flags_checked"]   # executions of the oracle inside the cases (reported as coverage.evaluations)
CONTRACT_GROUPS = ['C03']   # icontract layer (vlib/contracts.py) active inside the workload and in the repository's own tests
RULE = ("case = (R, P, variant, rmin, pmin, block of failure subsets); non-trivial sub-case = a subset with at least one failure in which results were judged; "
        "distinct key = (R,P,variant,rmin,pmin,subset) hashed per case block; counts in monitor_counters")
ASSUMPTIONS = ["NaN rules apply to every evaluator call of a run (same failure pattern at every point)"]
EXHAUSTIVE = {"quick": True, "thorough": True}
BOUNDS = {"quick": {"exhaustive_R_P": [3, 2]}, "thorough": {"exhaustive_R_P": [3, 3]}}
REQUIRED = {"quick": {"flags_checked": 8000, "gate_absent_checked": 1500, "grad_entries_compared": 3000, "differential_compared": 300, "garbage_compared": 300, "exit_code_checked": 94, "history_calls_judged": 500, "sampled_cases_with_default_thresholds.more_than_five_perturbations": 8, "sampled_cases_with_mixed_sign_weights": 8, "sampled_cases_with_negligible_surviving_weights": 6, "infinite_value_cases_judged": 90, "rows_with_both_infinities": 100, "__nontrivial__": 300},
            "thorough": {"flags_checked": 400000, "gate_absent_checked": 80000, "grad_entries_compared": 100000, "differential_compared": 8000, "garbage_compared": 8000, "exit_code_checked": 1906, "history_calls_judged": 12000, "sampled_cases_with_default_thresholds.more_than_five_perturbations": 200, "sampled_cases_with_mixed_sign_weights": 250, "sampled_cases_with_negligible_surviving_weights": 150, "infinite_value_cases_judged": 1800, "rows_with_both_infinities": 2000, "__nontrivial__": 3000}}

VARIANTS = ["mean", "stddev", "mixed_con", "filter_cvar", "filter_sort", "merged", "zero_weight", "stddev_equal"]


def _base_spec(R, P, variant, rng):
    V = 2
    n_obj = 2 if variant in ("stddev", "stddev_equal", "filter_cvar") else 1
    n_con = 1 if variant in ("mixed_con", "filter_sort") else 0
    F = n_obj + n_con
    design = np.array([[1.0, 0.0], [0.0, 1.0], [1.0, 1.0], [-1.0, 0.5], [0.5, -1.0], [1.0, -1.0], [0.5, 1.0], [-1.0, -1.0]])[:P]
    spec = {"V": V, "R": R, "P": P, "rweights": [float(1 + (r % 3)) for r in range(R)], "oweights": [1.0] if n_obj == 1 else [0.75, 0.25],
            "n_con": n_con, "x0": [0.3, -0.2], "magnitudes": [0.01], "merge": variant == "merged", "seed": 7,
            "samplers": [{"method": "verif/design", "options": {"samples": design.tolist()}}], "_shared": True, "_identical": R == 1,
            "ensemble": {"kind": "affine", "a": rng.normal(size=(R, F, V)).tolist(), "b": rng.normal(size=(R, F)).tolist()}}
    if n_con:
        spec["con_lb"], spec["con_ub"] = [-np.inf], [0.5]
    if variant == "zero_weight" and R >= 2:
        # a realization without weight that fails is a failed realization all the same (flags, thresholds, exit codes)
        spec["rweights"][1] = 0.0
    if variant in ("stddev", "stddev_equal"):
        spec["estimators"], spec["omap_est"] = ["mean", "stddev"], [1, 0]
    if variant == "stddev_equal":
        # a quantity that does not depend on the realization: its spread (and the gradient of the spread) is zero with or without
        # the failed realizations
        e = spec["ensemble"]
        e["a"] = [[e["a"][0][0], *row[1:]] for row in e["a"]]
        e["b"] = [[e["b"][0][0], *row[1:]] for row in e["b"]]
    if variant == "mixed_con":
        spec["estimators"], spec["omap_est"], spec["cmap_est"] = ["mean", "stddev"], [0], [1]
    if variant == "filter_cvar":
        spec["filters"] = [{"method": "cvar-objective", "options": {"sort": [0], "percentile": 0.5}}]
        spec["omap_f"] = [0, -1]
    if variant == "filter_sort":
        spec["filters"] = [{"method": "sort-constraint", "options": {"sort": 0, "first": 0, "last": max(0, R - 2)}}]
        spec["omap_f"], spec["cmap_f"] = [-1], [0]
    return spec


def cases(tier, seed):
    Rm, Pm = BOUNDS[tier]["exhaustive_R_P"]
    for R in range(1, Rm + 1):
        for P in range(1, Pm + 1):
            slots = R * (P + 1)
            nblocks = max(1, (2**slots) // 256)
            for variant in VARIANTS:
                for rmin in range(0, R + 1):
                    for pmin in range(1, P + 1):
                        for blk in range(nblocks):
                            yield {"mode": "exhaustive", "R": R, "P": P, "variant": variant, "rmin": rmin, "pmin": pmin, "block": blk, "nblocks": nblocks}
    for i in range(150 if tier == "quick" else 4000):
        yield {"mode": "sampled", "i": i}
    for i in range(200 if tier == "quick" else 4000):
        yield {"mode": "exit", "i": i}
    for i in range(150 if tier == "quick" else 3000):
        yield {"mode": "inf", "i": i}


def _rules(R, P, subset_bits, F, rot):
    rules, slot = [], 0
    for r in range(R):
        for p in range(-1, P):
            if subset_bits >> slot & 1:
                rules.append({"call": None, "r": r, "p": p, "col": (rot + slot) % F})
            slot += 1
    return rules


def _run(spec, cfg, pm, path, x, garbage_rows=False):
    from ropt.ensemble_evaluator import EnsembleEvaluator  # noqa: PLC0415

    ev = ens.RecordingEvaluator(spec)
    if garbage_rows:
        orig = ev.ens.values
        n_obj = ev.n_obj

        def values(Xv, rs, F):
            return orig(Xv, rs, F) * 1.0

        ev.ens.values = values
        ev.failed_row_garbage = True
    ee = EnsembleEvaluator(cfg, None, _GarbageWrap(ev) if garbage_rows else ev, pm)
    R, P = spec["R"], spec["P"]
    F = ev.n_obj + ev.n_con
    if path == "combined":
        fres, gres = ee.calculate(x, compute_functions=True, compute_gradients=True)
        c = ev.calls[0]
        allv = c.objectives if ev.n_con == 0 else np.hstack([c.objectives, c.constraints])
        return fres, gres, allv[:R], allv[R:].reshape(R, P, F)
    (fres,) = ee.calculate(x, compute_functions=True, compute_gradients=False)
    if fres.functions is None:
        raise _SplitStops(fres, ev)
    (gres,) = ee.calculate(x, compute_functions=False, compute_gradients=True)
    c0, c1 = ev.calls[0], ev.calls[1]
    fv = c0.objectives if ev.n_con == 0 else np.hstack([c0.objectives, c0.constraints])
    pv = c1.objectives if ev.n_con == 0 else np.hstack([c1.objectives, c1.constraints])
    return fres, gres, fv, pv.reshape(R, P, F)


class _SplitStops(Exception):
    """Split path: the function evaluation reported no functions; an optimizer stops there."""

    def __init__(self, fres, ev):
        self.fres, self.ev = fres, ev


class _GarbageWrap:
    """Replaces the finite entries of every row that contains a NaN by other finite values."""

    def __init__(self, ev):
        self.ev = ev

    def __call__(self, variables, context):
        res = self.ev(variables, context)
        allv = [res.objectives] + ([res.constraints] if res.constraints is not None else [])
        bad = np.zeros(res.objectives.shape[0], dtype=bool)
        for a in allv:
            bad |= np.isnan(a).any(axis=1)
        for a in allv:
            fin = bad[:, None] & ~np.isnan(a)
            a[fin] = a[fin] * -3.5 + 1234.5
        return res


def _same_results(a, b):
    for fa, fb in zip(_arrays(a), _arrays(b)):
        if (fa is None) != (fb is None):
            return False
        if fa is not None and not np.array_equal(fa, fb, equal_nan=True):
            return False
    return True


def _arrays(res):
    out = [res.realizations.failed_realizations, res.realizations.objective_weights, res.realizations.constraint_weights]
    if hasattr(res, "functions"):
        f = res.functions
        out += [None, None, None] if f is None else [f.weighted_objective, f.objectives, f.constraints]
    else:
        g = res.gradients
        out += [None, None, None] if g is None else [g.weighted_objective, g.objectives, g.constraints]
    return out


def _reduced(spec, keep):
    keep = [int(k) for k in keep]
    s = dict(spec)
    s["R"] = len(keep)
    s["rweights"] = [spec["rweights"][k] for k in keep]
    e = spec["ensemble"]
    s["ensemble"] = {"kind": "affine", "a": [e["a"][k] for k in keep], "b": [e["b"][k] for k in keep]}
    s["nan"] = [dict(r, r=keep.index(r["r"])) for r in spec["nan"] if r["r"] in keep]
    s["rmin"] = min(ens.rmin_of(spec), len(keep))
    s["_identical"] = len(keep) == 1
    return s


def _judge_subset(obs, spec, pm, x, tag):
    from ropt.exceptions import OptimizationAborted  # noqa: PLC0415

    cfg = ens.make_config(spec)
    R, P = spec["R"], spec["P"]
    judged = False
    results = {}
    for path in ("combined", "split"):
        try:
            fres, gres, fvals, pvals = _run(spec, cfg, pm, path, x)
        except OptimizationAborted:
            obs.count("aborted_by_filter_or_estimator")
            continue
        except _SplitStops as stop:
            # judge the function result alone
            c0 = stop.ev.calls[0]
            fv = c0.objectives if stop.ev.n_con == 0 else np.hstack([c0.objectives, c0.constraints])
            n_obj0 = len(spec["oweights"])
            obs.count("flags_checked")
            expected_functions(obs, spec, cfg, stop.fres, fv[:, :n_obj0], (fv[:, n_obj0:] if spec["n_con"] else None))
            obs.count("split_stopped_after_functions")
            continue
        results[path] = (fres, gres)
        obs.count("flags_checked", 2)
        n_obj = len(spec["oweights"])
        objs, cons = fvals[:, :n_obj], (fvals[:, n_obj:] if spec["n_con"] else None)
        failed_f = np.isnan(fvals).any(axis=1)
        if int((~failed_f).sum()) < ens.rmin_of(spec):
            obs.count("gate_absent_checked")
        j1 = expected_functions(obs, spec, cfg, fres, objs, cons)
        psucc = ~np.isnan(pvals).any(axis=2)
        failed_g = failed_f | (psucc.sum(axis=1) < ens.pmin_of(spec))
        if int((~failed_g).sum()) < ens.rmin_of(spec):
            obs.count("gate_absent_checked")
        j2 = judge_gradient(obs, spec, cfg, gres, fvals, pvals, path + ":" + tag, judge_merged_values=False)
        judged = judged or j1 or j2
        # differential: really remove the failed realizations (no filters: windows/percentiles refer to the ensemble size)
        same_level = np.array_equal(failed_f, failed_g)      # (gradient-only failures: only the gradients can be compared)
        if path == "combined" and not spec.get("filters") and failed_g.any() and not failed_g.all() and gres.gradients is not None:
            keep = np.flatnonzero(~failed_g)
            wk = np.asarray(spec["rweights"], dtype=float)[keep]
            # (an ensemble whose weights do not sum to a positive number cannot be configured: no reduced reference there)
            if np.any(wk > 0) and wk.sum() > 0.1 * np.abs(wk).sum():
                rs = _reduced(spec, keep)
                try:
                    f2, g2, _, _ = _run(rs, ens.make_config(rs), pm, "combined", x)
                except (OptimizationAborted, _SplitStops):
                    f2 = g2 = None
                if f2 is not None and f2.functions is not None and g2.gradients is not None and fres.functions is not None:
                    obs.count("differential_compared")
                    if not same_level:
                        obs.count("differential_compared_gradient_only_failures")
                    for name, A, B in (("functions.objectives", fres.functions.objectives, f2.functions.objectives),
                                       ("functions.constraints", fres.functions.constraints, f2.functions.constraints),
                                       ("functions.weighted", fres.functions.weighted_objective, f2.functions.weighted_objective),
                                       ("gradients.objectives", gres.gradients.objectives, g2.gradients.objectives),
                                       ("gradients.constraints", gres.gradients.constraints, g2.gradients.constraints)):
                        if A is None or (not same_level and name.startswith("functions")):
                            continue
                        if not np.allclose(A, B, rtol=1e-8, atol=1e-10, equal_nan=True):
                            obs.violation("differs_from_reduced_ensemble", field=name, full=A, reduced=B, failed=failed_g, tag=tag)
    # garbage invariance of failed rows (combined path)
    if "combined" in results and spec["nan"]:
        try:
            f3, g3, _, _ = _run(spec, cfg, pm, "combined", x, garbage_rows=True)
            obs.count("garbage_compared")
            if not (_same_results(results["combined"][0], f3) and _same_results(results["combined"][1], g3)):
                obs.violation("failed_row_values_influence_result", tag=tag)
        except (OptimizationAborted, _SplitStops):
            pass
    # split and combined agree on the function result
    if len(results) == 2 and not _same_results(results["combined"][0], results["split"][0]):
        obs.violation("combined_vs_split_functions", tag=tag)
    return judged


def _judge_history(obs, spec, pm, x, subsets, F):
    """One evaluator object serves a history of combined evaluations whose failure pattern changes from call to call:
    every call is judged on its own pattern (nothing may be carried over from an earlier call)."""
    from ropt.ensemble_evaluator import EnsembleEvaluator  # noqa: PLC0415
    from ropt.exceptions import OptimizationAborted  # noqa: PLC0415

    R, P = spec["R"], spec["P"]
    hist = dict(spec)
    hist["nan"] = [dict(rule, call=k) for k, bits in enumerate(subsets) for rule in _rules(R, P, bits, F, bits % F)]
    cfg = ens.make_config(hist)
    ev = ens.RecordingEvaluator(hist)
    ee = EnsembleEvaluator(cfg, None, ev, pm)
    n_obj = len(spec["oweights"])
    for k, bits in enumerate(subsets):
        xk = x + 0.01 * k
        n_calls = len(ev.calls)
        try:
            fres, gres = ee.calculate(xk, compute_functions=True, compute_gradients=True)
        except OptimizationAborted:
            obs.count("aborted_by_filter_or_estimator")
            continue
        finally:
            # the evaluator's call counter selects the rules: one combined evaluation is one call
            if len(ev.calls) != n_calls + 1:
                obs.count("history_call_layout_unexpected")
        c = ev.calls[-1]
        allv = c.objectives if ev.n_con == 0 else np.hstack([c.objectives, c.constraints])
        fvals, pvals = allv[:R], allv[R:].reshape(R, P, F)
        obs.count("history_calls_judged")
        obs.count("flags_checked", 2)
        one = dict(spec)
        one["nan"] = _rules(R, P, bits, F, bits % F)
        one["x0"] = xk.tolist()
        expected_functions(obs, one, cfg, fres, fvals[:, :n_obj], (fvals[:, n_obj:] if spec["n_con"] else None))
        judge_gradient(obs, one, cfg, gres, fvals, pvals, f"history{k}", judge_merged_values=False)


def _exit_case(case, obs):
    """Real optimizer step (SLSQP): TOO_FEW_REALIZATIONS iff the reference says functions or gradients are absent."""
    from ropt.enums import OptimizerExitCode  # noqa: PLC0415
    from ropt.plan import OptimizerContext, Plan  # noqa: PLC0415

    rng = rng_for(obs.seed, "c03x", case["i"])
    R, P = int(rng.integers(1, 4)), int(rng.integers(1, 4))
    variant = ["mean", "mixed_con", "stddev"][int(rng.integers(3))]
    spec = _base_spec(R, P, variant, rng)
    spec["ensemble"]["kind"] = "quad"
    spec["ensemble"]["q"] = [1.0] * (len(spec["oweights"]) + spec["n_con"])
    spec["ensemble"]["c"] = rng.normal(size=(R, 2)).tolist()
    spec["rmin"], spec["pmin"] = int(rng.integers(0, R + 1)), int(rng.integers(1, P + 1))
    F = len(spec["oweights"]) + spec["n_con"]
    bits = int(rng.integers(0, 2 ** (R * (P + 1)))) if rng.random() < 0.8 else 0
    if rng.random() < 0.5:
        bits &= int(rng.integers(0, 2 ** (R * (P + 1))))
    spec["nan"] = _rules(R, P, bits, F, int(rng.integers(F)))
    spec["optimizer"] = {"method": "slsqp", "max_iterations": 3, "speculative": bool(rng.random() < 0.5)}
    if spec["n_con"]:
        spec["con_lb"], spec["con_ub"] = [-np.inf], [50.0]
    case["spec"] = spec
    cfg = ens.make_config(spec)
    # reference gate
    failed_f = np.zeros(R, dtype=bool)
    psucc = np.ones((R, P), dtype=bool)
    for rule in spec["nan"]:
        if rule["p"] < 0:
            failed_f[rule["r"]] = True
        else:
            psucc[rule["r"], rule["p"]] = False
    failed_g = failed_f | (psucc.sum(axis=1) < ens.pmin_of(spec))
    rmin = ens.rmin_of(spec)
    absent = (~failed_f).sum() < rmin or (~failed_g).sum() < rmin
    allfail = failed_f.all() or failed_g.all()
    w = np.asarray(cfg.realizations.weights)
    ambiguous = not absent and not allfail and (not np.any(w[~failed_g] > 0) or (variant != "mean" and np.count_nonzero(w[~failed_g] > 0) < 2))
    ev = ens.RecordingEvaluator(spec)
    ctx = OptimizerContext(evaluator=ev, plugin_manager=ens.plugin_manager())
    plan = Plan(ctx)
    step = plan.add_step("optimizer")
    code = plan.run_step(step, config=cfg)
    if ambiguous:
        obs.count("exit_ambiguous")
        return
    obs.count("exit_code_checked")
    obs.nontrivial("exit", case["i"])
    if absent or allfail:
        obs.count("exit_expected_too_few")
        obs.check(code == OptimizerExitCode.TOO_FEW_REALIZATIONS, "exit_code_not_too_few", code=int(code), failed_f=failed_f, failed_g=failed_g, rmin=int(rmin))
    else:
        obs.check(code != OptimizerExitCode.TOO_FEW_REALIZATIONS, "exit_code_too_few_but_enough", code=int(code), failed_f=failed_f, failed_g=failed_g, rmin=int(rmin))


def _inf_case(case, obs):
    """Only NaN marks a failure: rows holding infinities (also +inf and -inf next to each other) are successful rows.
    Judged: the reported failure flags of the function and of the gradient result (values are not - they overflow)."""
    from ropt.ensemble_evaluator import EnsembleEvaluator  # noqa: PLC0415
    from ropt.exceptions import OptimizationAborted  # noqa: PLC0415

    rng = rng_for(obs.seed, "c03inf", case["i"])
    R, P = int(rng.integers(1, 5)), int(rng.integers(1, 4))
    n_obj, n_con = int(rng.integers(1, 4)), int(rng.integers(0, 4))
    F = n_obj + n_con
    spec = {"V": 2, "R": R, "P": P, "rweights": [1.0] * R, "oweights": [1.0] * n_obj, "n_con": n_con, "x0": [0.3, -0.2], "magnitudes": [0.01], "seed": 7,
            "samplers": [{"method": "norm"}], "ensemble": {"kind": "affine", "a": rng.normal(size=(R, F, 2)).tolist(), "b": rng.normal(size=(R, F)).tolist()},
            "rmin": 0, "pmin": int(rng.integers(1, P + 1)), "nan": []}
    if n_con:
        spec["con_lb"], spec["con_ub"] = [-np.inf] * n_con, [0.5] * n_con
    case["spec"] = spec
    cfg = ens.make_config(spec)
    ev = ens.RecordingEvaluator(spec)
    marks = {}

    def evaluator(variables, context):
        res = ev(variables, context)
        allv = [res.objectives] + ([res.constraints] if res.constraints is not None else [])
        n = res.objectives.shape[0]
        kinds = rng.choice(["finite", "nan", "inf", "inf_both"], size=n, p=[0.4, 0.2, 0.2, 0.2])
        for i, kd in enumerate(kinds):
            grp = allv[int(rng.integers(len(allv)))]
            if kd == "nan":
                grp[i, int(rng.integers(grp.shape[1]))] = np.nan
            elif kd == "inf":
                grp[i, int(rng.integers(grp.shape[1]))] = rng.choice([np.inf, -np.inf])
            elif kd == "inf_both":
                big = [g for g in allv if g.shape[1] >= 2]
                if big:
                    g = big[int(rng.integers(len(big)))]
                    c = rng.choice(g.shape[1], size=2, replace=False)
                    g[i, c[0]], g[i, c[1]] = np.inf, -np.inf
                    obs.count("rows_with_both_infinities")
                else:
                    kinds[i] = "finite"
        marks[len(ev.calls) - 1] = kinds
        return res

    import warnings  # noqa: PLC0415

    ee = EnsembleEvaluator(cfg, None, evaluator, ens.plugin_manager())
    try:
        with warnings.catch_warnings():
            warnings.simplefilter("ignore")
            fres, gres = ee.calculate(np.array(spec["x0"]), compute_functions=True, compute_gradients=True)
    except OptimizationAborted:
        obs.count("aborted_by_filter_or_estimator")
        return
    c = ev.calls[0]
    kinds = marks[0]
    perts = c.perturbations
    failed_f = np.zeros(R, dtype=bool)
    psucc = np.ones((R, P), dtype=bool)
    for i, kd in enumerate(kinds):
        r, p = int(c.realizations[i]), int(perts[i])
        if kd == "nan":
            if p < 0:
                failed_f[r] = True
            else:
                psucc[r, p] = False
    failed_g = failed_f | (psucc.sum(axis=1) < ens.pmin_of(spec))
    obs.count("infinite_value_cases_judged")
    obs.nontrivial("inf", case["i"])
    if not np.array_equal(np.asarray(fres.realizations.failed_realizations), failed_f):
        obs.violation("failed_flags_with_infinite_values", reported=fres.realizations.failed_realizations, expected=failed_f, rows=[str(k) for k in kinds],
                      realizations=c.realizations, perturbations=perts)
        return
    if not np.array_equal(np.asarray(gres.realizations.failed_realizations), failed_g):
        obs.violation("failed_flags_gradient_with_infinite_values", reported=gres.realizations.failed_realizations, expected=failed_g, rows=[str(k) for k in kinds],
                      realizations=c.realizations, perturbations=perts, pmin=ens.pmin_of(spec))


def run_case(case, obs):
    if case["mode"] == "exit":
        return _exit_case(case, obs)
    if case["mode"] == "inf":
        return _inf_case(case, obs)
    pm = ens.plugin_manager()
    if case["mode"] == "sampled":
        rng = rng_for(obs.seed, "c03s", case["i"])
        R, P = int(rng.integers(2, 7)), int(rng.integers(2, 9))
        variant = VARIANTS[int(rng.integers(len(VARIANTS)))]
        mixed = R >= 3 and rng.random() < 0.15
        if mixed:
            variant = "mean"
        spec = _base_spec(R, P, variant, rng)
        spec["rmin"], spec["pmin"] = int(rng.integers(0, R + 1)), int(rng.integers(1, P + 1))
        if mixed:
            # mixed-sign realization weights (positive sum): after a failure the surviving weights may sum to a negative number -
            # the estimate is still the mean under the surviving weights divided by their sum
            spec["rweights"] = [3.0, 1.0, -2.0] + [1.0] * (R - 3)
            obs.count("sampled_cases_with_mixed_sign_weights")
        tiny = (not mixed) and R >= 3 and rng.random() < 0.15
        if tiny:
            # realizations that carry nearly all the weight fail, the survivors carry a negligible (positive) share of it: the
            # estimate is the one of the ensemble made of the survivors, to full precision
            spec = _base_spec(R, P, "mean", rng)
            variant = "mean"
            spec["rmin"], spec["pmin"] = 1, int(rng.integers(1, P + 1))
            spec["rweights"] = [1.0, 2e-13, 1.0, 5e-13, 3e-12, 1e-14][:R]
            obs.count("sampled_cases_with_negligible_surviving_weights")
        if not tiny and rng.random() < 0.3:
            # thresholds left to their documented defaults: every perturbation (every realization) has to succeed
            spec["pmin"] = None
            if rng.random() < 0.3:
                spec["rmin"] = None
            obs.count("sampled_cases_with_default_thresholds")
            if P > 5:
                obs.count("sampled_cases_with_default_thresholds.more_than_five_perturbations")
        F = len(spec["oweights"]) + spec["n_con"]
        subsets = []
        for _ in range(6):
            bits = 0
            for slot in range(R * (P + 1)):
                if rng.random() < 0.18:
                    bits |= 1 << slot
            subsets.append(bits)
        if tiny:
            heavy = sum(1 << (r * (P + 1)) for r in range(R) if spec["rweights"][r] == 1.0)      # the unperturbed evaluations of the heavy ones
            subsets = [heavy, heavy | subsets[0], *subsets[2:]]
    else:
        R, P, variant = case["R"], case["P"], case["variant"]
        rng = rng_for(0, "c03", R, P, variant)
        spec = _base_spec(R, P, variant, rng)
        spec["rmin"], spec["pmin"] = case["rmin"], case["pmin"]
        F = len(spec["oweights"]) + spec["n_con"]
        total = 2 ** (R * (P + 1))
        per = total // case["nblocks"]
        subsets = range(case["block"] * per, (case["block"] + 1) * per)
    x = np.array(spec["x0"])
    obs.feature("variant." + variant)
    n = 0
    for bits in subsets:
        spec["nan"] = _rules(R, P, bits, F, bits % F)
        tag = f"R{R}P{P}:{variant}:rmin{spec['rmin']}:pmin{spec['pmin']}:subset{bits}"
        judged = _judge_subset(obs, spec, pm, x, tag)
        n += 1
        if judged and bits:
            obs.count("judged_with_failures")
    if case["mode"] == "sampled":
        _judge_history(obs, spec, pm, x, list(subsets), F)
    case["spec_last"] = {k: v for k, v in spec.items() if k != "ensemble"}
    obs.nontrivial(case)
    obs.sample({"R": R, "P": P, "variant": variant, "rmin": spec["rmin"], "pmin": spec["pmin"], "subsets_in_case": n,
                "last_nan_rules": spec["nan"][:4]})
