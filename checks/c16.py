"""C16 - runs are reproducible from configuration and seed alone.

Full traces (SHA-256 over every evaluator request, every delivered result array and the exit
code) of the same configuration are compared across: a clean run, a run with NumPy's and
random's global generators reseeded between and inside evaluator calls, a run after other
optimizations (same samplers/dimensions, other seeds) in the same process, a run that reuses
the plug-in manager / context, and a run in a fresh interpreter with another PYTHONHASHSEED."""
from __future__ import annotations

import hashlib
import json
import os
import subprocess
import sys

import numpy as np

from vlib import ens, env
from vlib.build import rng_for

PROPERTY = "C16"
LEVEL = "exploration"
TECHNIQUE = "runtime monitoring with trace hashing: bit-for-bit comparison of complete evaluator/result traces of repeated executions under global-RNG perturbation, interleaved foreign runs, object reuse and a fresh interpreter; seed sensitivity of the perturbations"
LEVEL_TEXT = ("60 (quick) / 1500 (thorough) generated configurations (all six sampler methods, shared or not, several samplers, filters, estimators, masks, SLSQP/L-BFGS-B/Nelder-Mead and seeded differential_evolution) "
              "x 4 in-process variants (+ fresh-interpreter variant on a subset); traces must be bit-identical; changing only the seed must change the perturbations")
LEVEL_NOTE = "trusted: SHA-256 trace digests; the evaluator is deterministic by construction; population methods are given an explicit seed option"
ANCHOR_FILES = ["src/ropt/ensemble_evaluator/_ensemble_evaluator.py", "src/ropt/plugins/sampler/scipy.py", "src/ropt/ensemble_evaluator/_gradient.py",
                "src/ropt/config/enopt/_gradient_config.py", "src/ropt/plugins/_manager.py"]
RULE = ("case = one configuration; non-trivial if the run made at least one gradient (perturbation) request or is a population run; distinct key = case index; "
        "monitor_counters: traces compared, evaluator calls hashed")
ASSUMPTIONS = ["differential_evolution is only required to be reproducible when given an explicit 'seed' option (as the statement says)"]
REQUIRED = {"quick": {"trace_pairs_compared": 295, "evaluator_calls_hashed": 1800, "foreign_runs_interleaved": 144, "seed_sensitivity_checked": 30, "fresh_process_runs": 6, "same_step_reruns": 200, "runs_with_unscrambled_qmc_samplers": 15, "runs_with_relative_perturbations": 14, "runs_with_distribution_options_on_a_stats_sampler": 10, "generator_object_seed_reruns": 30, "fresh_process_runs_with_several_samplers": 120, "runs_with_a_foreign_run_inside": 70, "runs_in_a_context_whose_earlier_plan_was_aborted": 70, "first_drawing_sampler_without_variables": 5, "__nontrivial__": 63},
            "thorough": {"trace_pairs_compared": 6075, "evaluator_calls_hashed": 40000, "foreign_runs_interleaved": 3000, "seed_sensitivity_checked": 700, "fresh_process_runs": 75, "same_step_reruns": 4000, "runs_with_unscrambled_qmc_samplers": 300, "runs_with_relative_perturbations": 300, "runs_with_distribution_options_on_a_stats_sampler": 250, "generator_object_seed_reruns": 600, "fresh_process_runs_with_several_samplers": 700, "runs_with_a_foreign_run_inside": 1400, "runs_in_a_context_whose_earlier_plan_was_aborted": 1400, "__nontrivial__": 1245}}
N = {"quick": 120, "thorough": 2500}
SAMPLERS = ["norm", "uniform", "truncnorm", "sobol", "halton", "lhs"]


def cases(tier, seed):
    for i in range(N[tier]):
        yield {"i": i}


def gen_spec(rng):
    V, R, P = int(rng.integers(1, 5)), int(rng.integers(1, 4)), int(rng.integers(1, 5))
    n_obj, n_con = int(rng.integers(1, 3)), int(rng.integers(0, 2))
    F = n_obj + n_con
    method = str(rng.choice(["slsqp", "l-bfgs-b", "nelder-mead", "differential_evolution", "slsqp", "differential_evolution"]))
    if method != "slsqp":
        n_con = 0
        F = n_obj
    spec = {"V": V, "R": R, "P": P, "rweights": ens.gen_weights(rng, R), "oweights": ens.gen_oweights(rng, n_obj, negative=False), "n_con": n_con,
            "x0": rng.uniform(-0.5, 0.5, size=V).tolist(), "seed": int(rng.integers(1, 10**6)) if rng.random() < 0.7 else [int(rng.integers(1, 99)), int(rng.integers(1, 99))],
            "magnitudes": [float(rng.uniform(0.005, 0.1))],
            "ensemble": {"kind": "quad", "a": rng.normal(size=(R, F, V)).tolist(), "b": rng.normal(size=(R, F)).tolist(), "q": [1.0, 0.5, 0.3][:F], "c": (rng.normal(size=(R, V)) * 0.4).tolist()},
            "nan": [], "rmin": 1}
    if n_con:
        spec["con_lb"], spec["con_ub"] = [-np.inf], [3.0]
    ns = int(rng.choice([1, 2, 3], p=[0.55, 0.3, 0.15]))
    spec["samplers"] = [{"method": str(rng.choice(SAMPLERS)), "shared": bool(rng.random() < 0.4)} for _ in range(ns)]
    if ns > 1:
        spec["smap"] = [int(t) for t in rng.integers(0, ns, size=V)]
        if rng.random() < 0.5:
            # several quasi-Monte-Carlo samplers with different method strings: their engines take their streams from the one
            # gradient generator in the order in which the samplers are constructed
            names = [str(x) for x in rng.permutation(["sobol", "halton", "lhs", "scipy/sobol", "scipy/lhs"])[:ns]]
            for smp, nm in zip(spec["samplers"], names):
                smp["method"] = nm
            spec["_several_qmc"] = True
    for smp in spec["samplers"]:
        # documented engine options: an unscrambled (centred) design still draws from the seeded generator where it draws at all
        if smp["method"].split("/")[-1] in ("lhs", "sobol", "halton") and rng.random() < 0.3:
            smp["options"] = {"scramble": False}
            spec["_unscrambled"] = True
    for smp in spec["samplers"]:
        # documented distribution options of the stats samplers
        base = smp["method"].split("/")[-1]
        if base in ("norm", "uniform", "truncnorm") and "options" not in smp and rng.random() < 0.35:
            smp["options"] = {"norm": {"scale": 2.0}, "uniform": {"loc": -0.5, "scale": 1.0}, "truncnorm": {"a": -2.0, "b": 2.0}}[base]
            spec["_stats_options"] = True
    if V > 1 and rng.random() < 0.3:
        m = rng.random(V) < 0.6
        m[int(rng.integers(V))] = True
        spec["mask"] = m.tolist()
    if V > 1 and rng.random() < 0.15:
        # several samplers, the one that draws first has all its variables masked out
        if len(spec["samplers"]) < 2:
            spec["samplers"].append({"method": str(rng.choice(SAMPLERS)), "shared": bool(rng.random() < 0.4)})
        k = int(rng.integers(1, V))
        spec["smap"] = [0] * k + [1] * (V - k)
        spec["mask"] = [False] * k + [True] * (V - k)
        spec["_first_sampler_empty"] = True
    if rng.random() < 0.3:
        spec["filters"] = [{"method": "cvar-objective", "options": {"sort": [0], "percentile": 0.6}}]
        spec["omap_f"] = [0] + [-1] * (n_obj - 1)
    if rng.random() < 0.25 and R > 1:
        spec["estimators"], spec["omap_est"] = ["mean", "stddev"], rng.integers(0, 2, size=n_obj).tolist()
    spec["optimizer"] = {"method": method, "max_iterations": 3, "speculative": bool(rng.random() < 0.3), "split_evaluations": bool(rng.random() < 0.3)}
    if method == "differential_evolution":
        spec["lb"], spec["ub"] = [-1.0] * V, [1.0] * V
        spec["optimizer"] = {"method": method, "options": {"seed": int(rng.choice([0, 0, 1, int(rng.integers(2, 999))])), "popsize": 2, "maxiter": 2, "tol": 0.9}, "parallel": bool(rng.random() < 0.5)}
    if rng.random() < 0.2:
        spec["nan"] = [{"call": None, "r": int(rng.integers(R)), "p": int(rng.integers(-1, P)), "col": 0}]
        spec["rmin"] = 0 if method == "differential_evolution" else 1
        spec["pmin"] = max(1, P - 1)
    if rng.random() < 0.25:
        # magnitudes relative to the bound range for some or all variables (the other settings of the gradient section,
        # the seed among them, are what the user wrote all the same)
        if "lb" not in spec:
            spec["lb"], spec["ub"] = [-1.5] * V, [1.5] * V
        pt = rng.integers(1, 3, size=V)
        pt[int(rng.integers(V))] = 2
        spec["ptypes"] = [int(t) for t in pt]
        spec["_relative"] = True
    return spec


def _hash_arrays(h, arrs):
    for a in arrs:
        if a is None:
            h.update(b"None")
        else:
            a = np.ascontiguousarray(a)
            h.update(str(a.dtype).encode() + str(a.shape).encode() + a.tobytes())


def run_trace(spec, *, reseed=False, pm=None, ctx_holder=None, repeat=None, interleave=None, config=None, after_abort=None):
    """Execute one optimizer step; return (digest, n_calls, perturbed rows digest, had_perturbations).

    repeat=k: the same step object of one plan is run k times with one validated configuration object (a restart loop);
    the list of the k per-run results is returned."""
    from ropt.enums import EventType  # noqa: PLC0415
    from ropt.plan import OptimizerContext, Plan  # noqa: PLC0415

    ev = ens.RecordingEvaluator(spec, reseed_global=reseed)
    pm = pm or ens.plugin_manager()
    h = hashlib.sha256()
    evaluator = ev
    if interleave is not None:
        # another optimization (same sampler methods and dimensions, other seed) is constructed and run to its end while this
        # one is live: from inside its evaluator, before the 2nd and the 4th request are answered
        def evaluator(variables, context):
            if len(ev.calls) in (1, 3):
                run_trace(interleave)
            return ev(variables, context)
    ctx = OptimizerContext(evaluator=evaluator, plugin_manager=pm)
    phase = {"foreign": False, "seen": 0}
    if after_abort is not None:
        # the context has served another plan before, which the user aborted after its second evaluation: a new plan in the same
        # context is a new plan
        from ropt.enums import OptimizerExitCode  # noqa: PLC0415
        from ropt.exceptions import OptimizationAborted  # noqa: PLC0415

        def aborter(_event):
            if phase["foreign"]:
                phase["seen"] += 1
                if phase["seen"] >= 2:
                    raise OptimizationAborted(exit_code=OptimizerExitCode.USER_ABORT)

        ctx.add_observer(EventType.FINISHED_EVALUATION, aborter)
        phase["foreign"] = True
        plan0 = Plan(ctx)
        import warnings as _w  # noqa: PLC0415

        with _w.catch_warnings():
            _w.simplefilter("ignore")
            phase["code"] = plan0.run_step(plan0.add_step("optimizer"), config=ens.make_config_dict(after_abort))
        phase["foreign"] = False
        del ev.calls[:]

    def on_results(event):
        if phase["foreign"]:
            return
        for res in event.data["results"]:
            parts = [res.evaluations, res.realizations, getattr(res, "functions", None), getattr(res, "gradients", None)]
            for part in parts:
                if part is None:
                    h.update(b"-")
                    continue
                for name in part.__slots__:
                    v = getattr(part, name, None)
                    if isinstance(v, np.ndarray):
                        _hash_arrays(h, [v])

    ctx.add_observer(EventType.FINISHED_EVALUATION, on_results)
    plan = Plan(ctx)
    step = plan.add_step("optimizer")
    if reseed:
        np.random.seed(12345)  # noqa: NPY002
    import warnings  # noqa: PLC0415

    if repeat:
        cfg = config if config is not None else ens.make_config(spec)
        out = []
        for _ in range(repeat):
            h = hashlib.sha256()
            del ev.calls[:]
            with warnings.catch_warnings():
                warnings.simplefilter("ignore")
                code = plan.run_step(step, config=cfg)
            out.append(_finish(h, ev, code))
        return out
    with warnings.catch_warnings():
        warnings.simplefilter("ignore")
        code = plan.run_step(step, config=ens.make_config_dict(spec))
    return _finish(h, ev, code)


def _finish(h, ev, code):
    hp = hashlib.sha256()
    had = False
    for c in ev.calls:
        _hash_arrays(h, [c.variables, c.realizations, c.perturbations, c.active_objectives, c.active_constraints])
        if c.perturbations is not None and np.any(c.perturbations >= 0):
            had = True
            _hash_arrays(hp, [c.variables[c.perturbations >= 0]])
    h.update(str(int(code)).encode())
    return h.hexdigest(), len(ev.calls), hp.hexdigest(), had


def _foreign(spec, rng):
    """Another optimization with the same sampler methods / dimensions but a different seed and start."""
    other = json.loads(json.dumps(spec))
    other["seed"] = int(rng.integers(10**6, 2 * 10**6))
    other["x0"] = (np.asarray(spec["x0"]) + 0.05).tolist()
    other["optimizer"] = dict(spec["optimizer"])
    return other


def run_case(case, obs):
    rng = rng_for(obs.seed, "c16", case["i"])
    spec = gen_spec(rng)
    case["spec"] = spec
    A = run_trace(spec)
    obs.count("evaluator_calls_hashed", A[1])
    pop = spec["optimizer"]["method"] == "differential_evolution"
    if A[3] or pop:
        obs.nontrivial(case["i"])
    obs.feature("method." + spec["optimizer"]["method"])
    for s in spec["samplers"]:
        obs.feature("sampler." + s["method"])
    if spec.get("_first_sampler_empty"):
        obs.count("first_drawing_sampler_without_variables")
    # B: global generators reseeded between and inside evaluator calls
    B = run_trace(spec, reseed=True)
    obs.count("trace_pairs_compared")
    if B[0] != A[0]:
        obs.violation("trace_depends_on_global_random_state", calls=[A[1], B[1]])
        return
    # C: after foreign runs in the same process (same sampler methods and dimensions, other seeds)
    for _ in range(2):
        run_trace(_foreign(spec, rng))
        obs.count("foreign_runs_interleaved")
    C = run_trace(spec)
    obs.count("trace_pairs_compared")
    if C[0] != A[0]:
        obs.violation("trace_depends_on_earlier_runs_in_the_process", samplers=spec["samplers"], calls=[A[1], C[1]])
        return
    # D: reusing one fresh plug-in manager for two runs, and a manager that served a foreign run
    from ropt.plugins import PluginManager  # noqa: PLC0415

    pm = ens.plugin_manager(fresh=True)
    D1 = run_trace(spec, pm=pm)
    run_trace(_foreign(spec, rng), pm=pm)
    D2 = run_trace(spec, pm=pm)
    obs.count("trace_pairs_compared", 2)
    if D1[0] != A[0] or D2[0] != A[0]:
        obs.violation("trace_depends_on_plugin_manager_reuse", first=D1[0] == A[0], second=D2[0] == A[0])
        return
    # G: a foreign run executed in the middle of this one
    G = run_trace(spec, interleave=_foreign(spec, rng))
    obs.count("trace_pairs_compared")
    obs.count("runs_with_a_foreign_run_inside")
    if G[0] != A[0]:
        obs.violation("trace_depends_on_a_run_executed_during_this_one", samplers=spec["samplers"], calls=[A[1], G[1]])
        return
    # I: a new plan in a context whose earlier plan was aborted by the user
    Ia = run_trace(spec, after_abort=_foreign(spec, rng))
    obs.count("trace_pairs_compared")
    obs.count("runs_in_a_context_whose_earlier_plan_was_aborted")
    if Ia[0] != A[0]:
        obs.violation("trace_depends_on_an_aborted_plan_in_the_same_context", samplers=spec["samplers"], calls=[A[1], Ia[1]], digest_differs=True)
        return
    # F: a restart loop - one step object of one plan run again and again with one validated configuration object
    for k, Fk in enumerate(run_trace(spec, repeat=3)):
        obs.count("trace_pairs_compared")
        obs.count("same_step_reruns")
        if Fk[0] != A[0]:
            obs.violation("trace_depends_on_earlier_runs_of_the_same_step", run=k, samplers=spec["samplers"], calls=[A[1], Fk[1]])
            return
    # H: the seed of a population method given as a generator object (a documented SciPy seed type): what the user hands over is
    # not consumed, a second run of the same configuration repeats the first
    if pop:
        from ropt.config.enopt import EnOptConfig  # noqa: PLC0415

        for make in (lambda: np.random.default_rng(4242), lambda: np.random.RandomState(4242)):  # noqa: NPY002
            cfgd = ens.make_config_dict(spec)
            cfgd["optimizer"] = dict(cfgd["optimizer"], options=dict(cfgd["optimizer"]["options"], seed=make()))
            first, second = run_trace(spec, repeat=2, config=EnOptConfig.model_validate(cfgd))
            obs.count("trace_pairs_compared")
            obs.count("generator_object_seed_reruns")
            if first[0] != second[0]:
                obs.violation("generator_object_given_as_seed_is_consumed", kind=type(make()).__name__, calls=[first[1], second[1]])
                return
    # seed sensitivity (also after the runs above)
    # (unscrambled Sobol / Halton sequences are the same for every seed: the seed-sensitivity check needs a sampler that draws)
    free = np.ones(spec["V"], dtype=bool) if spec.get("mask") is None else np.array(spec["mask"], dtype=bool)
    draws = False
    for k, sm in enumerate(spec["samplers"]):
        handles = free & (np.array(spec["smap"]) == k) if spec.get("smap") is not None else (free if k == 0 else np.zeros_like(free))
        if handles.any() and sm.get("options", {}).get("scramble") is not False:      # (an unscrambled design of a few points may coincide for two seeds)
            draws = True
    if spec.get("_stats_options"):
        obs.count("runs_with_distribution_options_on_a_stats_sampler")
    if spec.get("_relative"):
        obs.count("runs_with_relative_perturbations")
    if spec.get("_unscrambled"):
        obs.count("runs_with_unscrambled_qmc_samplers")
    if A[3] and draws:
        other = json.loads(json.dumps(spec))
        other["seed"] = (spec["seed"] + 1) if isinstance(spec["seed"], int) else [spec["seed"][0], spec["seed"][1] + 1]
        S = run_trace(other)
        obs.count("seed_sensitivity_checked")
        handled_any = True
        if S[2] == A[2] and handled_any:
            obs.violation("changing_the_seed_does_not_change_perturbations", samplers=spec["samplers"], seed=spec["seed"])
            return
    if pop and not spec["nan"] and A[1] >= 3:      # a run whose evaluations all fail never leaves the start point
        other = json.loads(json.dumps(spec))
        other["optimizer"]["options"]["seed"] = spec["optimizer"]["options"]["seed"] + 1
        S = run_trace(other)
        obs.count("population_seed_sensitivity_checked")
        if S[0] == A[0]:
            obs.violation("changing_the_population_seed_does_not_change_the_run", seed=spec["optimizer"]["options"]["seed"])
            return
    # E: fresh interpreter, other hash seed (subset)
    several = len(spec["samplers"]) > 1 and (obs.tier == "quick" or case["i"] % 3 == 0)
    if case["i"] % (10 if obs.tier == "quick" else 20) == 0 or several:
        # configurations with several samplers run in four fresh interpreters (hash seeds 1-4): whatever is ordered by hashing
        # comes out differently in at least one of them
        for hs in ([1 + case["i"] % 7] if not several else [1, 2, 3, 4]):
            e = env.child_env()
            e["PYTHONHASHSEED"] = str(hs)
            p = subprocess.run(["/venv/bin/python", "-B", "-m", "checks.c16"], input=json.dumps(_plain(spec)), capture_output=True, text=True, env=e, cwd=env.VERIF_DIR, timeout=300, check=False)
            obs.count("fresh_process_runs")
            if several:
                obs.count("fresh_process_runs_with_several_samplers")
            if p.returncode != 0:
                obs.violation("fresh_process_failed", stderr=p.stderr[-800:])
                return
            obs.count("trace_pairs_compared")
            if p.stdout.strip().split()[-1] != A[0]:
                obs.violation("trace_differs_in_fresh_process", samplers=spec["samplers"], hash_seed=hs)
                return
    obs.sample({"method": spec["optimizer"]["method"], "samplers": spec["samplers"], "assignment": spec.get("smap"), "mask": spec.get("mask"), "seed": spec["seed"],
                "evaluator_calls": A[1], "digest": A[0][:16]})


def _plain(x):
    from vlib.observe import _jsonable  # noqa: PLC0415

    return _jsonable(x)


if __name__ == "__main__":
    env.bootstrap()
    spec = ens.revive(json.loads(sys.stdin.read()))
    print(run_trace(spec)[0])
