"""C10 - perturbed variables honour magnitudes and boundary-type semantics.

Boundary: GradientEvaluations.perturbed_variables and the perturbation rows received by the
evaluator, with samples injected deterministically (verif/design sampler).  Oracle:
boundary-type model per variable."""
from __future__ import annotations

import numpy as np

from vlib import ens
from vlib.build import rng_for

PROPERTY = "C10"
LEVEL = "exploration"
TECHNIQUE = "runtime monitoring: injected deterministic samples (small steps to 50 bound widths) through the real evaluator; per-variable boundary-type model on reported and requested perturbed vectors"
LEVEL_TEXT = ("about 1e4 (quick) / 6e5 (thorough) perturbed vectors over finite/infinite bounds, absolute/relative magnitudes, per-variable mixes of NONE/TRUNCATE_BOTH/MIRROR_BOTH, "
              "one or two samplers; every entry compared with the model; bounded sampling, not a proof")
LEVEL_NOTE = "trusted: the boundary-type model in this file; MIRROR_BOTH is only required to land inside the bounds when a single reflection does not"
ANCHOR_FILES = ["src/ropt/ensemble_evaluator/_gradient.py", "src/ropt/config/enopt/_gradient_config.py"]
EXECUTION_COUNTERS = ["entries_checked"]   # executions of the oracle inside the cases (reported as coverage.evaluations)
CONTRACT_GROUPS = ['C10']   # icontract layer (vlib/contracts.py) active inside the workload and in the repository's own tests
RULE = ("case = one configuration with R x P injected sample vectors; an entry is non-trivial if its raw value x + m*s lies outside the bounds (boundary semantics exercised) "
        "- counted per boundary type; a case is non-trivial if it has such an entry; distinct key = case index")
ASSUMPTIONS = ["variables inside the bounds"]
REQUIRED = {"quick": {"entries_checked": 32228, "outside.NONE": 800, "outside.TRUNCATE_BOTH": 800, "outside.MIRROR_BOTH": 800, "mirror_single_reflection": 300, "relative_magnitude_entries": 2000, "evaluator_rows_checked": 3000, "with_variable_scaler": 400, "with_section_objects_used_before": 400, "mirror_symmetry_pairs": 600, "negative_relative_magnitude_variables": 150, "with_fixed_variables": 250, "with_three_samplers_in_use": 40, "__nontrivial__": 400},
            "thorough": {"entries_checked": 2161249, "outside.NONE": 30000, "outside.TRUNCATE_BOTH": 30000, "outside.MIRROR_BOTH": 30000, "mirror_single_reflection": 10000, "relative_magnitude_entries": 80000, "evaluator_rows_checked": 100000, "with_variable_scaler": 25000, "with_section_objects_used_before": 25000, "mirror_symmetry_pairs": 40000, "negative_relative_magnitude_variables": 6000, "with_fixed_variables": 20000, "with_three_samplers_in_use": 2500, "__nontrivial__": 15000}}
N = {"quick": 3000, "thorough": 200000}
NAMES = {1: "NONE", 2: "TRUNCATE_BOTH", 3: "MIRROR_BOTH"}


def cases(tier, seed):
    for i in range(N[tier]):
        yield {"i": i}


def run_case(case, obs):
    from ropt.ensemble_evaluator import EnsembleEvaluator  # noqa: PLC0415

    rng = rng_for(obs.seed, "c10", case["i"])
    V, R, P = int(rng.integers(1, 6)), int(rng.integers(1, 4)), int(rng.integers(1, 6))
    lb = np.where(rng.random(V) < 0.25, -np.inf, rng.uniform(-2, 0, size=V))
    ub = np.where(rng.random(V) < 0.25, np.inf, rng.uniform(0.1, 2, size=V))
    width = np.where(np.isfinite(ub - lb), ub - lb, 1.0)
    x = np.array([rng.uniform(max(l, -3), min(u, 3)) for l, u in zip(lb, ub)])
    if rng.random() < 0.15:
        k = int(rng.integers(V))
        if np.isfinite(ub[k]):
            x[k] = ub[k]          # start on a bound
    for k in range(V):
        if np.isfinite(lb[k]) and rng.random() < 0.08:
            # coinciding bounds are valid: a bound range of zero (a relative magnitude is a fraction of it: zero)
            ub[k] = lb[k]
            x[k] = lb[k]
            obs.count("variables_with_coinciding_bounds")
    ptypes = np.where(np.isfinite(lb) & np.isfinite(ub) & (rng.random(V) < 0.5), 2, 1)
    mags = np.where(ptypes == 2, rng.uniform(0.01, 0.5, size=V), 10 ** rng.uniform(-3, 0.5, size=V))
    if rng.random() < 0.3:
        # a magnitude is a signed factor of the sample (the configuration accepts negative values, absolute or relative)
        neg = rng.random(V) < 0.5
        mags = np.where(neg, -mags, mags)
        obs.count("negative_magnitude_variables", int(neg.sum()))
        obs.count("negative_relative_magnitude_variables", int((neg & (ptypes == 2)).sum()))
    btypes = rng.integers(1, 4, size=V)
    U = 1.0
    if rng.random() < 0.25:
        # the same problem with the variables expressed in another unit (per variable): values, bounds and absolute magnitudes
        # scale together, nothing else changes
        Uv = 10.0 ** rng.choice([-9, -6, -3, 3, 6, 9], size=V)
        lb, ub, x = lb * Uv, ub * Uv, x * Uv
        mags = np.where(ptypes == 2, mags, mags * Uv)
        U = Uv
        obs.count("with_variables_in_other_units")
    scale = rng.choice([1e-6, 1e-2, 1.0, 3.0, 50.0], size=(R, P, V))
    samples = rng.uniform(-1, 1, size=(R, P, V)) * scale
    spec = {"V": V, "R": R, "P": P, "rweights": [1.0] * R, "oweights": [1.0], "n_con": 0, "x0": x.tolist(), "lb": lb.tolist(), "ub": ub.tolist(),
            "magnitudes": mags.tolist(), "ptypes": [int(t) for t in ptypes], "btypes": [int(t) for t in btypes],
            "ensemble": {"kind": "hash"}, "nan": []}
    two = V > 1 and rng.random() < 0.3
    if two:
        ns = 3 if (V > 2 and rng.random() < 0.4) else 2       # two or three samplers, each handling its own variables
        smap = rng.integers(0, ns, size=V)
        tables = [samples] + [rng.uniform(-1, 1, size=(R, P, V)) * rng.choice([1e-2, 1.0, 20.0], size=(R, P, V)) for _ in range(ns - 1)]
        spec["samplers"] = [{"method": "verif/design", "options": {"samples": t.tolist()}} for t in tables]
        spec["smap"] = [int(t) for t in smap]
        eff = np.choose(smap, tables)
        if len(set(smap.tolist())) < ns:
            obs.feature("one_sampler_unused")
        if len(set(smap.tolist())) >= 3:
            obs.count("with_three_samplers_in_use")
    else:
        spec["samplers"] = [{"method": "verif/design", "options": {"samples": samples.tolist()}}]
        eff = samples
    retain = bool(rng.random() < 0.4)
    if retain:
        for smp in spec["samplers"]:
            smp["options"]["retain"] = True if rng.random() < 0.5 else "read-only"
        obs.count("with_sampler_that_keeps_its_sample_array")
    free = np.ones(V, dtype=bool)
    if V > 1 and rng.random() < 0.3:
        # some variables are fixed by a mask: they are not perturbed (their entries of the perturbed vectors are the current
        # values), and the perturbed vectors keep their full length
        free = rng.random(V) < 0.6
        free[int(rng.integers(V))] = True
        if not free.all():
            spec["mask"] = free.tolist()
            obs.count("with_fixed_variables")
    eff = np.where(free, eff, 0.0)
    case["spec"] = spec
    # a variable scaler must not change what happens in the user's coordinates (magnitudes and bounds are user-domain settings)
    T = None
    if rng.random() < 0.3:
        from vlib.transforms import make_transforms  # noqa: PLC0415

        case["tspec"] = {"vscale": np.round(10 ** rng.uniform(-0.7, 0.7, size=V), 3).tolist(), "voffset": np.round(rng.normal(size=V), 3).tolist() if rng.random() < 0.5 else None}
        T = make_transforms(case["tspec"])
        obs.count("with_variable_scaler")
    if rng.random() < 0.3:
        # the sections of the configuration are handed over as objects that an earlier configuration (other bounds,
        # same or no scaler) has already used: the settings of this configuration are the ones that count
        from ropt.config.enopt import EnOptConfig, GradientConfig  # noqa: PLC0415

        d = ens.make_config_dict(spec)
        gobj = GradientConfig(**d["gradient"])
        other = dict(d)
        other["gradient"] = gobj
        other["variables"] = dict(d["variables"])
        other["variables"]["lower_bounds"] = (np.where(np.isfinite(lb), lb - 7.0, lb)).tolist()
        other["variables"]["upper_bounds"] = (np.where(np.isfinite(ub), ub + 13.0, ub)).tolist()
        EnOptConfig.model_validate(other, context=T if rng.random() < 0.5 else None)
        d["gradient"] = gobj
        cfg = EnOptConfig.model_validate(d, context=T)
        obs.count("with_section_objects_used_before")
    else:
        cfg = ens.make_config(spec, T)
    ev = ens.RecordingEvaluator(spec)
    ee = EnsembleEvaluator(cfg, T, ev, ens.plugin_manager())
    m = np.where(ptypes == 2, (ub - lb) * mags, mags)
    nontriv = False
    x_first = x
    # one evaluator computes 1-3 gradients at different points: every one of them follows the rule (nothing that an
    # earlier evaluation did to the arrays of the samplers may show)
    for k_eval in range(int(rng.integers(1, 4))):
        if k_eval:
            Uk = np.broadcast_to(np.asarray(U, dtype=float), (V,))
            x = np.array([rng.uniform(l if np.isfinite(l) else min(-3 * uk, u), u if np.isfinite(u) else max(3 * uk, l)) for l, u, uk in zip(lb, ub, Uk)])
            obs.count("later_gradient_of_same_evaluator")
        xin = np.asarray(cfg.variables.initial_values, dtype=float) if k_eval == 0 else (T.variables.to_optimizer(x) if T is not None else x)
        path = "combined" if rng.random() < 0.5 else "split"
        if path == "combined":
            _, gres = ee.calculate(xin, compute_functions=True, compute_gradients=True)
            rows = ev.calls[-1].variables[R:].reshape(R, P, V)
        else:
            ee.calculate(xin, compute_functions=True, compute_gradients=False)
            (gres,) = ee.calculate(xin, compute_functions=False, compute_gradients=True)
            rows = ev.calls[-1].variables.reshape(R, P, V)
        got = np.asarray(gres.evaluations.perturbed_variables)
        if got.shape != (R, P, V):
            obs.violation("reported_perturbed_variables_shape", got=list(got.shape), want=[R, P, V], mask=spec.get("mask"))
            return
        if T is not None:
            got = T.variables.from_optimizer(got)      # judge in the user's coordinates
        raw = x + m * eff
        for v in range(V):
            t = int(btypes[v])
            for r in range(R):
                for p in range(P):
                    g, w = got[r, p, v], raw[r, p, v]
                    obs.count("entries_checked")
                    if ptypes[v] == 2:
                        obs.count("relative_magnitude_entries")
                    inside = lb[v] <= w <= ub[v]
                    tol = (1e-12 if T is None else 1e-9) * ((U if np.isscalar(U) else U[v]) + abs(w) + abs(x[v]))
                    if T is not None:
                        # the scaler's own offset limits what a round trip through optimizer coordinates can resolve
                        off = case["tspec"].get("voffset")
                        tol += 1e-13 * (1.0 + (abs(off[v]) if off is not None else 0.0))
                    if inside:
                        ok = abs(g - w) <= tol
                        kind = "inside_value_altered"
                    else:
                        nontriv = True
                        obs.count("outside." + NAMES[t])
                        if t == 1:
                            ok, kind = abs(g - w) <= tol, "NONE_altered"
                        elif t == 2:
                            ok, kind = abs(g - min(max(w, lb[v]), ub[v])) <= (0.0 if T is None else tol), "TRUNCATE_not_clipped"
                        else:
                            b = lb[v] if w < lb[v] else ub[v]
                            refl = 2 * b - w
                            if lb[v] <= refl <= ub[v]:
                                obs.count("mirror_single_reflection")
                                ok, kind = abs(g - refl) <= tol, "MIRROR_not_reflected"
                            else:
                                ok, kind = lb[v] - (0 if T is None else tol) <= g <= ub[v] + (0 if T is None else tol), "MIRROR_outside_bounds"
                    if not ok:
                        obs.violation(kind, variable=v, btype=NAMES[t], got=float(g), raw=float(w), lb=float(lb[v]), ub=float(ub[v]),
                                      x=float(x[v]), magnitude=float(m[v]), sample=float(eff[r, p, v]))
                        return
        obs.count("evaluator_rows_checked", R * P)
        if not (np.array_equal(rows, got) if T is None else np.allclose(rows, got, rtol=1e-12, atol=1e-14)):
            obs.violation("evaluator_rows_differ_from_reported", rows=rows, reported=got)
        if k_eval == 0 and T is None and not two:
            # both bounds are treated alike: the problem reflected in the middle of the bound interval (start point and samples
            # reflected for the variables with two finite bounds) gives the reflected perturbed vectors - whatever number of
            # reflections an overshoot of many bound widths needs
            fin = np.isfinite(lb) & np.isfinite(ub)
            if fin.any():
                specm = dict(spec)
                xm = np.where(fin, lb + ub - x_first, x_first)
                specm["x0"] = xm.tolist()
                specm["samplers"] = [{"method": "verif/design", "options": {"samples": np.where(fin, -samples, samples).tolist()}}]
                evm = ens.RecordingEvaluator(specm)
                _, gm = EnsembleEvaluator(ens.make_config(specm), None, evm, ens.plugin_manager()).calculate(xm, compute_functions=True, compute_gradients=True)
                gotm = np.asarray(gm.evaluations.perturbed_variables)
                wantm = np.where(fin, lb + ub - got, got)
                obs.count("mirror_symmetry_pairs")
                okm = np.abs(gotm - wantm) <= 1e-9 * (U + np.abs(wantm) + np.abs(x_first) + np.where(fin, np.abs(lb) + np.abs(ub), 0.0))
                if not okm.all():
                    r_, p_, v_ = (int(t) for t in np.argwhere(~okm)[0])
                    obs.violation("bounds_not_treated_alike", variable=v_, btype=NAMES[int(btypes[v_])], lb=float(lb[v_]), ub=float(ub[v_]), x=float(x_first[v_]),
                                  raw=float(raw[r_, p_, v_]), got=float(got[r_, p_, v_]), reflected_problem_got=float(gotm[r_, p_, v_]),
                                  reflected_problem_expected=float(wantm[r_, p_, v_]))
                    return
    if nontriv:
        obs.nontrivial(case["i"])
    obs.feature("path." + path)
    obs.feature("two_samplers" if two else "one_sampler")
    obs.sample({"V": V, "lb": lb, "ub": ub, "x": x, "btypes": [NAMES[int(t)] for t in btypes], "ptypes": ptypes, "magnitudes": mags})
