"""C20 - external-process runs equal in-process runs; process death is never success.

Real child processes (ropt_plugin_optimizer).  (1) Differential: the complete trace
(evaluator requests, delivered results, exit code) of `external/<method>` must be
bit-identical to that of `<method>` in-process.  (2) Crash points: the child is killed
(SIGKILL) after k messages written by the parent, for every k of the fault-free run; the
evaluator raises at every evaluation index.  (3) Process table (/proc) after the step
returned or raised.  'Never hangs' is judged in logical steps: number of pipe rounds of the
parent after the child was reaped."""
from __future__ import annotations

import hashlib
import json
import os
import signal
import time

import numpy as np

from vlib import ens
from vlib.build import rng_for

PROPERTY = "C20"
LEVEL = "fault_enumeration"
TECHNIQUE = "runtime monitoring of real parent/child processes: in-process vs external trace hashing (differential), SIGKILL injection after every message count, evaluator exceptions at every evaluation, /proc process-table inspection, logical-step bound on pipe rounds after child death"
LEVEL_TEXT = ("about 40 (quick) / 700 (thorough) real external runs: trace equality for SLSQP, COBYLA, L-BFGS-B, Nelder-Mead and seeded differential_evolution (sequential and vectorized) with constraints, masks, "
              "max_functions, NaN failures and user aborts; child killed after each possible number of exchanged messages; evaluator raising at each evaluation; no child left alive")
LEVEL_NOTE = "trusted: SHA-256 trace digests, /proc, the message counter wrapped around the parent's pipe communicator; a wall-clock watchdog (90 s) only yields 'inconclusive'"
ANCHOR_FILES = ["src/ropt/plugins/optimizer/external.py", "src/ropt/optimization/_optimizer.py"]
EXECUTION_COUNTERS = ["external_runs"]   # executions of the oracle inside the cases (reported as coverage.evaluations)
RULE = ("case = one configuration (differential) or one (configuration, crash point); non-trivial if a real child process was started and exchanged at least one message; distinct key = case; "
        "monitor_counters: external runs, messages, kill points, children seen in /proc")
ASSUMPTIONS = ["Linux /proc", "the harness puts /venv/bin on PATH so that the plug-in runner script is found", "population methods get an explicit seed option"]
CASE_TIMEOUT = 240
SHARD_TIMEOUT = {"quick": 900, "thorough": 7200}
REQUIRED = {"quick": {"external_runs": 25, "trace_pairs_compared": 8, "kill_runs": 8, "optimizer_process_exit_runs": 5, "optimizer_error_without_message_runs": 3, "nested_pairs_compared": 2, "evaluator_exception_runs": 2, "process_table_checked": 25, "messages_counted": 100, "messages_beyond_one_pipe_buffer": 7, "configurations_compared_at_the_pipe": 14, "explicit_start_vector_pairs": 3, "pairs_with_path_options": 4, "pairs_with_path_options_beyond_ascii": 2, "external_runs_with_an_evaluation_beyond_the_polling_interval": 2, "__nontrivial__": 20},
            "thorough": {"external_runs": 300, "trace_pairs_compared": 80, "kill_runs": 120, "optimizer_process_exit_runs": 80, "optimizer_error_without_message_runs": 50, "nested_pairs_compared": 12, "evaluator_exception_runs": 50, "process_table_checked": 300, "messages_counted": 2000, "messages_beyond_one_pipe_buffer": 70, "configurations_compared_at_the_pipe": 140, "pairs_with_path_options": 40, "pairs_with_path_options_beyond_ascii": 20, "external_runs_with_an_evaluation_beyond_the_polling_interval": 25, "__nontrivial__": 250}}
N = {"quick": {"diff": 27, "kill": 3, "exc": 2, "exit": 2, "nested": 3}, "thorough": {"diff": 270, "kill": 30, "exc": 20, "exit": 20, "nested": 20}}
MAX_ROUNDS_AFTER_DEATH = 6


def cases(tier, seed):
    n = N[tier]
    for i in range(n["diff"]):
        yield {"mode": "diff", "i": i}
    for i in range(n["kill"]):
        for k in range(-1, 7 if tier == "quick" else 12):
            # abnormal death comes in several flavours: SIGKILL, a plain SIGTERM (kill <pid>, a scheduler stopping the job), SIGABRT (crash)
            yield {"mode": "kill", "i": i, "k": k, "signal": ["SIGKILL", "SIGTERM", "SIGABRT"][(k + i) % 3]}
    for i in range(n["exc"]):
        for k in range(0, 3 if tier == "quick" else 6):
            yield {"mode": "exc", "i": i, "k": k}
    for i in range(n["nested"]):
        yield {"mode": "nested", "i": i}
    for i in range(n["exit"]):
        for k in range(-1, 4 if tier == "quick" else 8):
            # the optimizer process ends by itself with an error status instead of sending its k-th message (-1: at start-up),
            # without reporting anything: a library calling exit(), a failing import, an unhandled error outside its reporting
            yield {"mode": "exit", "i": i, "k": k, "status": [1, 3, 70][(k + i) % 3]}
            if k >= 1:
                # ... or an error without a message is raised inside the optimizer at that moment (status 0 in the stand-in): the
                # runner reports it, the parent has to end the run with an error
                yield {"mode": "exit", "i": i, "k": k, "status": 0}


def gen_spec(rng, i):
    # powell, cg and bfgs ask again for a point of an earlier line search: every request has to reach the parent
    method = ["slsqp", "cobyla", "l-bfgs-b", "nelder-mead", "differential_evolution", "slsqp", "powell", "cg", "bfgs"][i % 9]
    V, R, P = int(rng.integers(2, 4)), int(rng.integers(1, 3)), 2
    big = i % 4 == 3
    if big:
        # messages far beyond one pipe buffer (4096 bytes): the configuration and every evaluation request / answer
        V = 6 if method == "differential_evolution" else int(rng.integers(250, 400))
    n_con = int(rng.integers(0, 2)) if method in ("slsqp", "cobyla") else (int(rng.random() < 0.7) if method == "differential_evolution" else 0)
    F = 1 + n_con
    spec = {"V": V, "R": R, "P": P, "rweights": [1.0] * R, "oweights": [1.0], "n_con": n_con, "x0": rng.uniform(-0.3, 0.3, size=V).tolist(), "seed": int(rng.integers(1, 999)),
            "magnitudes": [0.01], "samplers": [{"method": str(rng.choice(["norm", "sobol", "uniform"]))}],
            "ensemble": {"kind": "quad", "a": (rng.normal(size=(R, F, V)) * 0.3).tolist(), "b": rng.normal(size=(R, F)).tolist(), "q": [1.0, 0.5][:F], "c": (rng.normal(size=(R, V)) * 0.3).tolist()},
            "nan": [], "rmin": 1}
    if n_con:
        spec["con_lb"], spec["con_ub"] = [-np.inf], [5.0]
    if rng.random() < 0.4:
        m = rng.random(V) < 0.6
        m[int(rng.integers(V))] = True
        spec["mask"] = m.tolist()
    if method == "differential_evolution":
        spec["lb"], spec["ub"] = [-1.0] * V, [1.0] * V
        spec["optimizer"] = {"method": method, "options": {"seed": int(rng.integers(1, 99)), "popsize": 2, "maxiter": 1, "tol": 0.9}, "parallel": bool(rng.random() < 0.5)}
        if big:
            spec["optimizer"]["options"]["popsize"] = 15
            spec["optimizer"]["parallel"] = True
        spec["rmin"] = 0 if rng.random() < 0.5 else 1
    else:
        if rng.random() < (0.1 if method in ("nelder-mead", "powell") else 0.4) and method != "cobyla":
            spec["lb"], spec["ub"] = [-1.0] * V, [1.0] * V
            if rng.random() < 0.5:
                spec["ptypes"], spec["magnitudes"] = [2] * V, [0.01]
        elif (method in ("nelder-mead", "powell") or rng.random() < 0.5) and method not in ("cobyla", "cg", "bfgs"):
            # partly bounded variables: infinite entries in the configuration have to reach the child as infinities
            spec["lb"] = [(-1.0 if k % 2 == 0 else -np.inf) for k in range(V)]
            spec["ub"] = [(np.inf if k % 3 == 0 else 1.0) for k in range(V)]
            spec["_partly_bounded"] = True
        spec["optimizer"] = {"method": method, "max_iterations": 2, "options": {"maxiter": 2}, "speculative": bool(rng.random() < 0.3), "split_evaluations": bool(rng.random() < 0.3)}
        if big:
            spec["optimizer"].update({"max_iterations": 1, "options": {"maxiter": 1}, "max_functions": 3})
        elif method in ("powell", "cg", "bfgs"):
            # long enough for a second line search (that is where an earlier point is asked for again)
            spec["optimizer"].update({"max_iterations": 4, "options": {"maxiter": 4}, "speculative": False})
            if rng.random() < 0.5:
                spec["optimizer"]["max_functions"] = int(rng.integers(20, 45))
        elif rng.random() < 0.3:
            spec["optimizer"]["max_functions"] = int(rng.integers(2, 5))
    if rng.random() < 0.3:
        spec["nan"] = [{"call": int(rng.integers(0, 4)), "r": int(rng.integers(R)), "p": -1, "col": 0}]
    if method == "differential_evolution" and rng.random() < 0.7:
        # an evaluation in which every realization fails: tolerated (NaN -> inf) by a NaN-tolerant method when realization_min_success is 0
        spec["rmin"] = 0
        k = int(rng.integers(1, 4))
        spec["nan"] = [{"call": k, "r": r, "p": -1, "col": 0} for r in range(R)]
    return spec


def _children():
    """PIDs of live child processes of this process that run the plug-in runner."""
    me = os.getpid()
    out = []
    for d in os.listdir("/proc"):
        if not d.isdigit():
            continue
        try:
            with open(f"/proc/{d}/stat") as fh:
                st = fh.read()
            ppid = int(st.rsplit(")", 1)[1].split()[1])
            state = st.rsplit(")", 1)[1].split()[0]
            if ppid != me:
                continue
            with open(f"/proc/{d}/cmdline", "rb") as fh:
                cmd = fh.read().replace(b"\0", b" ").decode(errors="replace")
        except (OSError, ValueError, IndexError):
            continue
        if "ropt_plugin_optimizer" in cmd and state != "Z":
            out.append(int(d))
    return out


class ParentHung(BaseException):
    """The parent process did not return within the bound after its optimizer process had died."""


def _parent_hung(_sig, _frm):
    raise ParentHung


class Pipes:
    """Counts the parent's pipe rounds; can kill the child after k written messages."""

    def __init__(self):
        self.writes = 0
        self.config_sent = None
        self.big_writes = 0
        self.rounds_after_death = 0
        self.kill_after = None
        self.kill_signal = signal.SIGKILL
        self.killed = None
        self.dead = False

    def _await_death(self):
        """Wait until the kernel reports the death (zombie or gone); from then on the parent has bounded time to return."""
        if self.killed is None:
            return
        t0 = time.time()
        while time.time() - t0 < 10:
            try:
                with open(f"/proc/{self.killed}/stat") as fh:
                    if fh.read().rsplit(")", 1)[1].split()[0] == "Z":
                        break
            except OSError:
                break
            time.sleep(0.01)
        self.dead = True
        self._arm()

    def _arm(self):
        # bounded progress instead of "never hangs": the parent polls once a second; 45 s after the death (or after it has read
        # an error report) it has to be back
        if getattr(self, "_armed_at", None) is None:
            self._old_handler = signal.signal(signal.SIGALRM, _parent_hung)
            self._old_remaining = signal.alarm(45)
            self._armed_at = time.time()

    def disarm(self):
        if getattr(self, "_armed_at", None) is not None:
            signal.alarm(0)
            signal.signal(signal.SIGALRM, self._old_handler)
            if self._old_remaining:
                signal.alarm(max(1, int(self._old_remaining - (time.time() - self._armed_at))))
            self._armed_at = None

    def install(self):
        import ropt.plugins.optimizer.external as ext  # noqa: PLC0415

        comm = ext._JSONPipeCommunicator  # noqa: SLF001
        self._orig = (comm.read, comm.write)
        me = self

        def read(self_):
            if me.dead:
                me.rounds_after_death += 1
            if me.kill_after == -1 and me.killed is None:
                # kill point "before the first message": the child has been started but has not opened its end of the pipes yet
                for pid in _children():
                    os.kill(pid, me.kill_signal)
                    me.killed = pid
                me._await_death()
            msg = me._orig[0](self_)
            if isinstance(msg, dict) and "error" in msg:
                me.error_reports = getattr(me, "error_reports", 0) + 1
                me._arm()
            return msg

        def write(self_, data):
            if me.dead:
                me.rounds_after_death += 1
            ok = me._orig[1](self_, data)
            if ok:
                me.writes += 1
                if isinstance(data, dict) and "variables" in data and "optimizer" in data:
                    me.config_sent = data
                if len(json.dumps(data, default=lambda o: o.tolist() if hasattr(o, "tolist") else str(o))) > 4096:       # (the monitor's own encoding: size only)
                    me.big_writes += 1
                if me.kill_after is not None and me.kill_after >= 0 and me.writes == me.kill_after + 1 and me.killed is None:
                    for pid in _children():
                        os.kill(pid, me.kill_signal)
                        me.killed = pid
                    me._await_death()
            return ok

        comm.read, comm.write = read, write
        self._comm = comm

    def remove(self):
        self._comm.read, self._comm.write = self._orig


def _first_difference(a, b, path):
    if isinstance(a, dict) and isinstance(b, dict):
        for k in sorted(set(a) | set(b)):
            if k not in a or k not in b:
                return (f"{path}.{k}", a.get(k, "<missing>"), b.get(k, "<missing>"))
            d = _first_difference(a[k], b[k], f"{path}.{k}")
            if d is not None:
                return d
        return None
    if isinstance(a, (list, tuple)) and isinstance(b, (list, tuple)):
        if len(a) != len(b):
            return (path, a, b)
        for i, (x, y) in enumerate(zip(a, b)):
            d = _first_difference(x, y, f"{path}[{i}]")
            if d is not None:
                return d
        return None
    if isinstance(a, np.ndarray) or isinstance(b, np.ndarray):
        a, b = np.asarray(a), np.asarray(b)
        if a.shape != b.shape or not (np.array_equal(a, b, equal_nan=True) if a.dtype.kind == "f" else np.array_equal(a, b)):
            return (path, a, b)
        return None
    if isinstance(a, float) and isinstance(b, float) and a != a and b != b:
        return None
    return None if a == b else (path, a, b)


def run_trace(spec, external, *, raise_at=None, pipes=None, start=None, slow=None):
    from ropt.enums import EventType  # noqa: PLC0415
    from ropt.plan import OptimizerContext, Plan  # noqa: PLC0415

    s = dict(spec)
    s["optimizer"] = dict(spec["optimizer"])
    if external:
        s["optimizer"]["method"] = "external/" + spec["optimizer"]["method"]
    ev = ens.RecordingEvaluator(s, raise_at=raise_at)
    h = hashlib.sha256()
    evaluator = ev
    if slow:
        # an evaluation that takes longer than the polling interval of the pipes (1 s): the optimizer process just waits
        def evaluator(variables, context):
            k = len(ev.calls)
            out = ev(variables, context)
            if k in slow:
                time.sleep(slow[k])
                slow["slept"] = slow.get("slept", 0) + 1
            return out

    ctx = OptimizerContext(evaluator=evaluator, plugin_manager=ens.plugin_manager())

    def on_results(event):
        for res in event.data["results"]:
            for part in (res.evaluations, res.realizations, getattr(res, "functions", None), getattr(res, "gradients", None)):
                if part is None:
                    h.update(b"-")
                    continue
                for name in part.__slots__:
                    v = getattr(part, name, None)
                    if isinstance(v, np.ndarray):
                        a = np.ascontiguousarray(v)
                        h.update(str(a.dtype).encode() + str(a.shape).encode() + a.tobytes())

    ctx.add_observer(EventType.FINISHED_EVALUATION, on_results)
    plan = Plan(ctx)
    step = plan.add_step("optimizer")
    import warnings  # noqa: PLC0415

    out = {"code": None, "exc": None}
    t0 = time.time()
    try:
        with warnings.catch_warnings():
            warnings.simplefilter("ignore")
            if start is not None:
                out["code"] = int(plan.run_step(step, config=ens.make_config_dict(s), variables=np.asarray(start)))
            else:
                out["code"] = int(plan.run_step(step, config=ens.make_config_dict(s)))
    except Exception as exc:  # noqa: BLE001
        from vlib.observe import CaseTimeout  # noqa: PLC0415

        if isinstance(exc, CaseTimeout):
            raise
        out["exc"] = exc
    out["wall"] = time.time() - t0
    for c in ev.calls:
        for a in (c.variables, c.realizations, c.perturbations, c.active_objectives, c.active_constraints):
            if a is None:
                h.update(b"None")
            else:
                a = np.ascontiguousarray(a)
                h.update(str(a.dtype).encode() + str(a.shape).encode() + a.tobytes())
    h.update(str(out["code"]).encode())
    out["digest"], out["calls"], out["ev"] = h.hexdigest(), len(ev.calls), ev
    return out


def _check_process_table(obs, when, tag):
    obs.count("process_table_checked")
    time.sleep(0.05)
    left = _children()
    if left:
        time.sleep(0.5)
        left = _children()
    if left:
        obs.violation("optimizer_process_left_running", when=when, pids=left, **tag)
        for pid in left:
            try:
                os.kill(pid, signal.SIGKILL)
            except OSError:
                pass
        return False
    return True


_WRAPPER = """#!{python}
# stands in for the plug-in runner: the genuine entry point, except that the process ends with an error status
# instead of sending its k-th message (k < 0: before anything else)
import os, stat, sys
K, STATUS, MARK = int(os.environ["VERIF_EXIT_AT"]), int(os.environ["VERIF_EXIT_STATUS"]), os.environ["VERIF_EXIT_MARK"]
def _leave():
    with open(MARK, "w") as fh:
        fh.write("left")
    if STATUS == 0:
        # not an exit: an error without a message raised inside the optimizer (a bare assert, NotImplementedError, ...),
        # which the runner reports to the parent
        raise NotImplementedError
    os._exit(STATUS)
if K < 0:
    _leave()
_write, _n = os.write, [0]
def write(fd, data):
    if stat.S_ISFIFO(os.fstat(fd).st_mode):
        _n[0] += 1
        if _n[0] == K + 1:
            _leave()
    return _write(fd, data)
os.write = write
from ropt.plugins.optimizer.external import ropt_plugin_optimizer
sys.exit(ropt_plugin_optimizer())
"""


def _nested_case(case, obs, rng):
    """A nested plan with the same method at both levels, in-process and through the external plug-in: while the inner optimization
    runs, the optimizer process of the outer one is alive and waiting for its answer."""
    from ropt.plan import OptimizerContext, Plan  # noqa: PLC0415
    from ropt.results import FunctionResults  # noqa: PLC0415

    V, R = 3, int(rng.integers(1, 3))
    method = str(rng.choice(["nelder-mead", "powell", "slsqp"]))
    spec = {"V": V, "R": R, "P": 2, "rweights": [1.0] * R, "oweights": [1.0], "n_con": 0, "x0": rng.uniform(-0.3, 0.3, size=V).tolist(), "seed": int(rng.integers(1, 999)),
            "magnitudes": [0.01], "samplers": [{"method": "norm"}], "nan": [], "rmin": R,
            "ensemble": {"kind": "quad", "a": (rng.normal(size=(R, 1, V)) * 0.3).tolist(), "b": rng.normal(size=(R, 1)).tolist(), "q": [1.0], "c": (rng.normal(size=(R, V)) * 0.3).tolist()}}
    case["spec"] = spec
    tag = {"method": method, "mode": "nested"}

    def run(external):
        ev = ens.RecordingEvaluator(spec)
        ctx = OptimizerContext(evaluator=ev, plugin_manager=ens.plugin_manager())
        outer, inner = Plan(ctx), Plan(ctx)
        m = ("external/" if external else "") + method
        si = inner.add_step("optimizer")
        tracker = inner.add_handler("tracker", sources={si})
        icfg = ens.make_config_dict(dict(spec, mask=[False, True, False], optimizer={"method": m, "max_functions": 3}))
        codes = []

        def inner_fn(plan, variables):
            plan.set(tracker, "results", None)
            codes.append(int(plan.run_step(si, config=icfg, variables=variables)))
            res = plan.get(tracker, "results")
            return res if isinstance(res, FunctionResults) else None

        inner.add_function(inner_fn)
        so = outer.add_step("optimizer")
        ocfg = ens.make_config_dict(dict(spec, mask=[True, False, True], optimizer={"method": m, "max_functions": 3}))
        import warnings  # noqa: PLC0415

        try:
            with warnings.catch_warnings():
                warnings.simplefilter("ignore")
                code, exc = int(outer.run_step(so, config=ocfg, nested_optimization=inner)), None
        except Exception as e:  # noqa: BLE001
            code, exc = None, e
        return {"code": code, "exc": exc, "inner_codes": codes, "calls": [c.variables.copy() for c in ev.calls]}

    a = run(False)
    b = run(True)
    obs.count("external_runs")
    obs.count("nested_pairs_compared")
    obs.nontrivial(case)
    _check_process_table(obs, "after a nested run returned", tag)
    if (a["exc"] is None) != (b["exc"] is None):
        obs.violation("exception_only_in_one_mode", in_process=repr(a["exc"]), external=repr(b["exc"]), **tag)
        return
    if a["code"] != b["code"] or a["inner_codes"] != b["inner_codes"]:
        obs.violation("exit_code_differs", in_process=[a["code"], a["inner_codes"]], external=[b["code"], b["inner_codes"]], **tag)
        return
    if len(a["calls"]) != len(b["calls"]) or any(x.shape != y.shape or not np.array_equal(x, y) for x, y in zip(a["calls"], b["calls"])):
        obs.violation("trace_differs_between_in_process_and_external", calls=[len(a["calls"]), len(b["calls"])], **tag)
        return
    obs.sample({"method": method, "nested": True, "evaluator_calls": len(b["calls"]), "exit_code": b["code"], "inner_runs": len(b["inner_codes"])})


def _exit_case(case, obs, spec, tag):
    import shutil  # noqa: PLC0415
    import sys  # noqa: PLC0415
    import tempfile  # noqa: PLC0415

    from ropt.enums import OptimizerExitCode as X  # noqa: PLC0415,N817

    d = tempfile.mkdtemp(prefix="verif_c20_", dir=("/dev/shm" if os.path.isdir("/dev/shm") else None))
    runner = os.path.join(d, "ropt_plugin_optimizer")
    with open(runner, "w") as fh:
        fh.write(_WRAPPER.format(python=sys.executable))
    os.chmod(runner, 0o755)
    mark = os.path.join(d, "left")
    saved = {k: os.environ.get(k) for k in ("PATH", "VERIF_EXIT_AT", "VERIF_EXIT_STATUS", "VERIF_EXIT_MARK")}
    os.environ.update({"PATH": d + os.pathsep + os.environ.get("PATH", ""), "VERIF_EXIT_AT": str(case["k"]), "VERIF_EXIT_STATUS": str(case["status"]),
                       "VERIF_EXIT_MARK": mark})
    pipes = Pipes()
    pipes.install()
    hung = False
    try:
        try:
            b = run_trace(spec, True)
        except ParentHung:
            hung = True
            for pid in _children():
                os.kill(pid, signal.SIGKILL)
        left = os.path.exists(mark)
    finally:
        pipes.disarm()
        pipes.remove()
        for k, v in saved.items():
            if v is None:
                os.environ.pop(k, None)
            else:
                os.environ[k] = v
        shutil.rmtree(d, ignore_errors=True)
    obs.count("external_runs")
    if hung:
        obs.nontrivial(case)
        obs.violation("parent_does_not_return_after_its_optimizer_process_reported_an_error", raised_instead_of_message=case["k"], seconds_waited=45, **tag)
        return
    _check_process_table(obs, "after a run whose optimizer process ended by itself", tag)
    if not left:
        obs.count("exit_point_beyond_run")
        return
    if case["status"] == 0:
        obs.count("optimizer_error_without_message_runs")
        obs.count("error_reports_read_by_the_parent", getattr(pipes, "error_reports", 0))
        obs.nontrivial(case)
        if b["exc"] is None:
            obs.violation("error_of_the_optimizer_process_not_raised", raised_instead_of_message=case["k"], exit_code=b["code"], **tag)
        else:
            obs.sample({"raised_instead_of_message": case["k"], "outcome": repr(b["exc"])})
        return
    obs.count("optimizer_process_exit_runs")
    obs.nontrivial(case)
    if b["exc"] is None and b["code"] == int(X.OPTIMIZER_STEP_FINISHED):
        obs.violation("optimizer_process_that_ended_with_an_error_status_reported_as_normal_completion", left_instead_of_message=case["k"],
                      exit_status=case["status"], exit_code=b["code"], **tag)
        return
    obs.feature(f"exit_status.{case['status']}")
    obs.sample({"left_instead_of_message": case["k"], "exit_status": case["status"], "outcome": repr(b["exc"]) if b["exc"] else b["code"]})


def _diff_case(case, obs, spec, rng, tag):
    from ropt.enums import OptimizerExitCode as X  # noqa: PLC0415,N817

    abort_at = None
    if rng.random() < 0.25:
        from ropt.exceptions import OptimizationAborted  # noqa: PLC0415

        abort_at = int(rng.integers(0, 4))
    mk = (lambda: {abort_at: OptimizationAborted(exit_code=X.USER_ABORT)}) if abort_at is not None else (lambda: None)
    start = None
    if rng.random() < 0.4:
        # the step is started from explicitly passed variables (restart from an earlier result)
        start = np.asarray(spec["x0"]) + rng.uniform(-0.2, 0.2, size=spec["V"])
        if spec.get("lb") is not None:
            start = np.clip(start, np.asarray(spec["lb"]) + 1e-6, np.asarray(spec["ub"]) - 1e-6)
        obs.count("explicit_start_vector_pairs")
    a = run_trace(spec, False, raise_at=mk(), start=start)
    slow = {int(rng.integers(0, 3)): float(rng.choice([1.3, 2.4]))} if case["i"] % 5 == 2 else None
    pipes = Pipes()
    pipes.install()
    try:
        b = run_trace(spec, True, raise_at=mk(), start=start, slow=slow)
    finally:
        pipes.remove()
    if slow and slow.get("slept"):
        obs.count("external_runs_with_an_evaluation_beyond_the_polling_interval")
    obs.count("external_runs")
    obs.count("messages_counted", pipes.writes)
    obs.count("messages_beyond_one_pipe_buffer", pipes.big_writes)
    if pipes.config_sent is not None:
        # the configuration as the child reads it (through JSON) is the configuration of the parent, infinities included
        from ropt.config.enopt import EnOptConfig  # noqa: PLC0415

        sx = dict(spec, optimizer=dict(spec["optimizer"], method="external/" + spec["optimizer"]["method"]))
        want = EnOptConfig.model_validate(ens.make_config_dict(sx)).model_dump(round_trip=True)
        got = EnOptConfig.model_validate(json.loads(json.dumps(pipes.config_sent, default=lambda o: o.tolist() if hasattr(o, "tolist") else str(o)))).model_dump(round_trip=True)
        obs.count("configurations_compared_at_the_pipe")
        diff = _first_difference(want, got, "config")
        if diff is not None:
            obs.violation("configuration_read_by_the_child_differs", where=diff[0], parent=diff[1], child=diff[2], **tag)
            return
    if pipes.writes:
        obs.nontrivial(case)
    else:
        obs.count("interceptor_not_entered")
    _check_process_table(obs, "after the step returned", tag)
    obs.count("trace_pairs_compared")
    if (a["exc"] is None) != (b["exc"] is None):
        obs.violation("exception_only_in_one_mode", in_process=repr(a["exc"]), external=repr(b["exc"]), **tag)
        return
    if a["code"] != b["code"]:
        obs.violation("exit_code_differs", in_process=a["code"], external=b["code"], user_abort_at=abort_at, **tag)
        return
    if a["digest"] != b["digest"]:
        # locate the first differing evaluator call
        first = None
        for n, (c0, c1) in enumerate(zip(a["ev"].calls, b["ev"].calls)):
            if c0.variables.shape != c1.variables.shape or not np.array_equal(c0.variables, c1.variables):
                first = {"call": n, "in_process": c0.variables[0], "external": c1.variables[0],
                         "max_abs_diff": float(np.max(np.abs(c0.variables - c1.variables))) if c0.variables.shape == c1.variables.shape else None}
                break
        obs.violation("trace_differs_between_in_process_and_external", calls=[a["calls"], b["calls"]], first_difference=first, **tag)
        return
    obs.sample({"method": spec["optimizer"]["method"], "mask": spec.get("mask"), "max_functions": spec["optimizer"].get("max_functions"), "user_abort_at": abort_at,
                "messages": pipes.writes, "evaluator_calls": b["calls"], "exit_code": b["code"], "digest": b["digest"][:16]})
    return


def run_case(case, obs):
    from ropt.enums import OptimizerExitCode as X  # noqa: PLC0415,N817

    mode = case["mode"]
    rng = rng_for(obs.seed, "c20", mode, case["i"])
    spec = gen_spec(rng, case["i"])
    case["spec"] = spec
    tag = {"method": spec["optimizer"]["method"], "mode": mode}
    obs.feature("method." + spec["optimizer"]["method"])
    if spec.get("_partly_bounded"):
        obs.count("cases_with_partly_bounded_variables")
    if mode == "diff":
        outdir = None
        if case["i"] % 4 == 1:
            # the optimizer options that are paths (a directory for what the back-end writes, files its output is sent to)
            import tempfile  # noqa: PLC0415

            outdir = tempfile.mkdtemp(prefix="verif_c20_out_", dir=("/dev/shm" if os.path.isdir("/dev/shm") else None))
            # ... half of them with characters beyond ASCII in the names (a user's directory, a file named in their language)
            plain = case["i"] % 16 in (1, 5)
            n_out, n_err = ("optimizer.out", "optimizer.err") if plain else ("sortie_optimiseur_\u00e9t\u00e9_\u51fa\u529b.out", "fehler_\u00fc\u00df.err")
            spec = dict(spec, optimizer=dict(spec["optimizer"], output_dir=outdir, **({"stdout": n_out} if case["i"] % 8 == 1 else {"stderr": os.path.join(outdir, n_err)})))
            case["spec"] = spec
            obs.count("pairs_with_path_options")
            if not plain:
                obs.count("pairs_with_path_options_beyond_ascii")
        try:
            return _diff_case(case, obs, spec, rng, tag)
        finally:
            if outdir is not None:
                import shutil  # noqa: PLC0415

                shutil.rmtree(outdir, ignore_errors=True)
    if mode == "kill":
        pipes = Pipes()
        pipes.kill_after = case["k"]
        pipes.kill_signal = getattr(signal, case.get("signal", "SIGKILL"))
        pipes.install()
        try:
            b = run_trace(spec, True)
        except ParentHung:
            pipes.disarm()
            pipes.remove()
            for pid in _children():
                os.kill(pid, signal.SIGKILL)
            obs.count("kill_runs")
            obs.nontrivial(case)
            obs.violation("parent_does_not_return_after_its_optimizer_process_died", killed_after_messages=case["k"], signal=case.get("signal"),
                          seconds_waited=45, **tag)
            return
        finally:
            pipes.disarm()
            pipes.remove()
        obs.count("external_runs")
        obs.count("messages_counted", pipes.writes)
        _check_process_table(obs, "after a killed run returned", tag)
        if pipes.killed is None:
            obs.count("kill_point_beyond_run")
            return
        obs.count("kill_runs")
        obs.nontrivial(case)
        if b["exc"] is None and b["code"] == int(X.OPTIMIZER_STEP_FINISHED):
            obs.violation("killed_optimizer_process_reported_as_normal_completion", killed_after_messages=case["k"], signal=case.get("signal"), exit_code=b["code"], **tag)
            return
        if pipes.rounds_after_death > MAX_ROUNDS_AFTER_DEATH:
            obs.violation("parent_keeps_polling_after_child_death", rounds=pipes.rounds_after_death, **tag)
            return
        obs.feature("kill." + case.get("signal", "SIGKILL"))
        obs.sample({"killed_after_messages": case["k"], "signal": case.get("signal"), "outcome": repr(b["exc"]) if b["exc"] else b["code"], "rounds_after_death": pipes.rounds_after_death})
        return
    if mode == "exit":
        return _exit_case(case, obs, spec, tag)
    if mode == "nested":
        return _nested_case(case, obs, rng)
    # evaluator raises at evaluation k
    class UserError(RuntimeError):
        pass

    class SimulatorCrash(Exception):      # an application-defined exception, not derived from any built-in error class
        pass

    # the class of what the user's evaluator raises is the user's business
    klass = [UserError, ValueError, SimulatorCrash, KeyError, OSError, ZeroDivisionError][(case["k"] + case["i"]) % 6]
    err = klass(f"user failure at evaluation {case['k']}")
    obs.feature("evaluator_exception." + klass.__name__)
    b = run_trace(spec, True, raise_at={case["k"]: err})
    obs.count("external_runs")
    if b["calls"] <= case["k"]:
        obs.count("raise_point_beyond_run")
        _check_process_table(obs, "after the step returned", tag)
        return
    obs.count("evaluator_exception_runs")
    obs.nontrivial(case)
    _check_process_table(obs, "after the evaluator raised", tag)
    chain, cur = [], b["exc"]
    while cur is not None and len(chain) < 10:      # a back-end may wrap what its callables raise ("from" the original)
        chain.append(cur)
        cur = cur.__cause__ or cur.__context__
    if not any(c is err for c in chain):
        obs.violation("user_exception_swallowed_or_replaced", escaped=repr(b["exc"]), code=b["code"], **tag)
