"""C12 - the tracked best result is the feasible optimum over the whole history.

History check: synthetic evaluation-event histories are pushed through the real Plan
and the real tracker handlers ('best' and 'last'); after every event the tracker's
state is compared with a 20-line reference tracker.  Plus real BasicOptimizer runs
(NaN failures, maximisation transforms) compared with a recording observer."""
from __future__ import annotations

import itertools
import uuid

import numpy as np

from vlib import ens
from vlib.build import rng_for
from vlib.transforms import make_transforms

PROPERTY = "C12"
LEVEL = "exploration"
TECHNIQUE = "runtime monitoring: exhaustive bounded histories of evaluation events through the real Plan/tracker handlers, state compared with a sequential reference tracker after every event; real BasicOptimizer runs compared with an independent observer"
LEVEL_TEXT = ("every history up to length 3 (quick) / 4 (thorough) over an alphabet of 44 event kinds (objective incl. NaN and ties x feasibility x result kind x source) "
              "x tolerance {None,0,1e-10,0.5} x {no transform, sign-flipping objective transform}, 'best' and 'last' trackers; sampled longer histories with several results per event; real optimizations")
LEVEL_NOTE = "trusted: reference tracker in this file; ties accept any minimal result; if only NaN-objective results were delivered both 'nothing' and such a result are accepted"
ANCHOR_FILES = ["src/ropt/plugins/plan/_tracker.py", "src/ropt/plugins/plan/_utils.py", "src/ropt/plan/_basic_optimizer.py", "src/ropt/plugins/plan/optimizer.py"]
EXECUTION_COUNTERS = ["histories", "basic_optimizer_runs"]   # executions of the oracle inside the cases (reported as coverage.evaluations)
RULE = ("case = (first event kind(s), tolerance, transform) with every continuation inside; a history is non-trivial if it delivers at least one feasible tracked function result; "
        "distinct key = case; monitor_counters: histories, prefix states compared")
ASSUMPTIONS = ["user-domain and optimizer-domain violations of a synthetic result agree about feasibility"]
EXHAUSTIVE = {"quick": True, "thorough": True}
BOUNDS = {"quick": {"history_length": 3}, "thorough": {"history_length": 4}}
REQUIRED = {"quick": {"histories": 300000, "states_compared": 1500000, "nan_first_histories": 20000, "flip_histories": 100000, "basic_optimizer_runs": 120, "cases_with_nearly_tied_objectives": 200, "basic_optimizer_scripted_runs": 25, "basic_results_with_violation_between_default_and_requested_tolerance": 30, "__nontrivial__": 200},
            "thorough": {"histories": 15000000, "states_compared": 100000000, "nan_first_histories": 1000000, "flip_histories": 5000000, "basic_optimizer_runs": 1200, "cases_with_nearly_tied_objectives": 8000, "basic_optimizer_scripted_runs": 250, "basic_results_with_violation_between_default_and_requested_tolerance": 300, "__nontrivial__": 2000}}

# two objective alphabets: {infinitely good, a tie at exactly zero, infinitely bad (still a value), undefined} and {three values
# within 2e-10 relative of each other with an exact tie among them - every strictly lower value is an improvement -, undefined}
ALPHABETS = [[float("-inf"), 0.0, 0.0, float("inf"), float("nan")], [1.0 - 2e-10, 1.0 - 1e-10, 1.0 - 1e-10, 1.0, float("nan")]]
OBJ = ALPHABETS[0]


def _use_alphabet(k):
    global OBJ  # noqa: PLW0603
    OBJ = ALPHABETS[k]
FEAS = ["ok", "v0.1", "v2", "noinfo"]
LETTERS = [("f", o, f) for o in range(5) for f in FEAS] + [("nofunc", None, None), ("grad", None, None)]
EVENTS = [(src, l) for src in ("tracked", "other") for l in LETTERS]
TOLS = [None, 0.0, 1e-10, 0.5]


def cases(tier, seed):
    L = BOUNDS[tier]["history_length"]
    for ti in range(len(TOLS)):
        for flip in (False, True):
            for e0 in range(len(EVENTS)):
                for alpha in range(len(ALPHABETS)):
                    if L >= 4:
                        for e1 in range(len(EVENTS)):
                            yield {"mode": "exhaustive", "tol": ti, "flip": flip, "prefix": [e0, e1], "L": L, "alphabet": alpha}
                    else:
                        yield {"mode": "exhaustive", "tol": ti, "flip": flip, "prefix": [e0], "L": L, "alphabet": alpha}
    for i in range(60 if tier == "quick" else 1500):
        yield {"mode": "sampled", "i": i}
    for i in range(200 if tier == "quick" else 2000):
        yield {"mode": "basic", "i": i}


_CFG = None


def _cfg():
    global _CFG  # noqa: PLW0603
    if _CFG is None:
        from ropt.config.enopt import EnOptConfig  # noqa: PLC0415

        _CFG = EnOptConfig.model_validate({"variables": {"initial_values": [0.0]}})
    return _CFG


def _mk(letter, flip):
    """Return (user item, optimizer-domain item, info)."""
    from ropt.results import (ConstraintInfo, FunctionEvaluations, FunctionResults, Functions, GradientEvaluations,  # noqa: PLC0415
                              GradientResults, Gradients, Realizations)

    kind, oi, feas = letter
    real = Realizations(failed_realizations=np.array([False]))
    if kind == "grad":
        g = GradientResults(batch_id=None, metadata={}, evaluations=GradientEvaluations.create(np.zeros(1), np.zeros((1, 1, 1)), np.zeros((1, 1, 1))),
                            realizations=real, gradients=Gradients.create(np.zeros(1), np.zeros((1, 1))))
        return g, g, {"kind": "grad"}
    ev = FunctionEvaluations.create(np.zeros(1), np.zeros((1, 1)))

    def build(sign, vscale=1.0):
        if kind == "nofunc":
            return FunctionResults(batch_id=None, metadata={}, evaluations=ev, realizations=real, functions=None, constraint_info=None)
        obj = OBJ[oi]
        viol = {"ok": 0.0, "v0.1": 0.1, "v2": 2.0, "noinfo": None}[feas]
        info = None if viol is None else ConstraintInfo(bound_lower=np.array([-viol * vscale if viol else 1.0]), bound_upper=np.array([-1.0]))
        return FunctionResults(batch_id=None, metadata={}, evaluations=ev, realizations=real,
                               functions=Functions.create(np.array(sign * obj), np.array([sign * obj])), constraint_info=info)

    t = build(1.0)
    # the user-domain twin under a transform: objective sign flipped, constraint differences in other units (x100) - trackers
    # judge in the optimizer domain
    u = build(-1.0, 100.0) if flip else t
    viol = None if kind == "nofunc" else {"ok": 0.0, "v0.1": 0.1, "v2": 2.0, "noinfo": 0.0}[feas]
    return u, t, {"kind": kind, "obj": None if kind == "nofunc" else OBJ[oi], "viol": viol}


class Ref:
    def __init__(self, tol):
        self.tol = tol
        self.best = []      # acceptable identities (ties)
        self.best_obj = None
        self.last = None
        self.nan_seen = []  # feasible NaN-objective results delivered while no defined one exists

    def feed(self, tracked, items):
        if not tracked:
            return
        last = None
        for u, _t, info in items:
            if info["kind"] != "f":
                continue
            if self.tol is not None and info["viol"] > self.tol:
                continue
            last = u
            obj = info["obj"]
            if obj != obj:
                self.nan_seen.append(u)
                continue
            if self.best_obj is None or obj < self.best_obj:
                self.best_obj, self.best = obj, [u]
            elif obj == self.best_obj:
                self.best.append(u)
        if last is not None:
            self.last = last


def _run_history(obs, plan_ctx, events_items, tol, flip):
    """events_items: list of (tracked?, [(u, t, info), ...])."""
    from ropt.enums import EventType  # noqa: PLC0415
    from ropt.plan import Event, Plan  # noqa: PLC0415

    plan = Plan(plan_ctx)
    # the trackers follow two steps (a multi-stage plan): tracked events come from either of them in turn - what counts is the
    # whole history of the tracked sources (the BasicOptimizer cases below track a single source)
    src, src2, other = uuid.uuid4(), uuid.uuid4(), uuid.uuid4()
    hb = plan.add_handler("tracker", what="best", constraint_tolerance=tol, sources={src, src2})
    hl = plan.add_handler("tracker", what="last", constraint_tolerance=tol, sources={src, src2})
    ref = Ref(tol)
    obs.count("histories")
    for k, (tracked, items) in enumerate(events_items):
        if tracked == "reset":
            # users reset a tracker through the plan (the repository's own tests do): the history starts over
            plan.set(hb, "results", None)
            plan.set(hl, "results", None)
            ref.__init__(tol)
            obs.count("resets")
            continue
        data = {"results": tuple(u for u, _, _ in items)}
        if flip:
            data["transformed_results"] = tuple(t for _, t, _ in items)
        plan.emit_event(Event(event_type=EventType.FINISHED_EVALUATION, config=_cfg(), source=((src, src2)[k % 2] if tracked else other), data=data))
        ref.feed(tracked, items)
        obs.count("states_compared", 2)
        gb, gl = plan.get(hb, "results"), plan.get(hl, "results")
        if ref.best:
            okb = any(gb is b for b in ref.best)
        else:
            okb = gb is None or any(gb is n for n in ref.nan_seen)
        if not okb:
            held = None if gb is None else float(gb.functions.weighted_objective)
            obs.violation("best_tracker_state", event=k, held_user_objective=held, expected_optimizer_objective=ref.best_obj,
                          history=[(t, [i for _, _, i in it]) for t, it in events_items[: k + 1]], tolerance=tol, flip=flip)
            return False
        if gl is not ref.last:
            obs.violation("last_tracker_state", event=k, history=[(t, [i for _, _, i in it]) for t, it in events_items[: k + 1]], tolerance=tol, flip=flip)
            return False
    return bool(ref.best)


def run_case(case, obs):
    from ropt.plan import OptimizerContext  # noqa: PLC0415

    if case["mode"] == "basic":
        return _basic(case, obs)
    ctx = OptimizerContext(evaluator=lambda *_: None, plugin_manager=ens.plugin_manager())
    if case["mode"] == "sampled":
        rng = rng_for(obs.seed, "c12s", case["i"])
        any_nontrivial = False
        for _ in range(300):
            tol = TOLS[int(rng.integers(len(TOLS)))]
            flip = bool(rng.random() < 0.5)
            _use_alphabet(int(rng.integers(len(ALPHABETS))))
            hist = []
            for _k in range(int(rng.integers(4, 9))):
                src, _l = EVENTS[int(rng.integers(len(EVENTS)))]
                n = int(rng.integers(1, 4))
                if rng.random() < 0.08:
                    hist.append(("reset", []))
                hist.append((src == "tracked", [_mk(LETTERS[int(rng.integers(len(LETTERS)))], flip) for _ in range(n)]))
            any_nontrivial |= _run_history(obs, ctx, hist, tol, flip)
            obs.count("multi_result_histories")
        if any_nontrivial:
            obs.nontrivial("sampled", case["i"])
        return
    tol, flip, L = TOLS[case["tol"]], case["flip"], case["L"]
    _use_alphabet(case.get("alphabet", 0))
    if case.get("alphabet"):
        obs.count("cases_with_nearly_tied_objectives")
    pre = case["prefix"]
    any_nontrivial = False
    for rest in itertools.product(range(len(EVENTS)), repeat=L - len(pre)):
        seq = [*pre, *rest]
        hist = [(EVENTS[e][0] == "tracked", [_mk(EVENTS[e][1], flip)]) for e in seq]
        first = EVENTS[seq[0]]
        if first[0] == "tracked" and first[1][0] == "f" and first[1][1] == 4:
            obs.count("nan_first_histories")
        if flip:
            obs.count("flip_histories")
        any_nontrivial |= _run_history(obs, ctx, hist, tol, flip)
    if any_nontrivial:
        obs.nontrivial(case)
    obs.sample({"tolerance": tol, "sign_flip_transform": flip, "objective_alphabet": OBJ, "first_events": [EVENTS[e] for e in pre], "length": L})


def _basic(case, obs):
    """Real BasicOptimizer: .results is the feasible delivered result with the lowest optimizer-domain objective."""
    from ropt.evaluator import EvaluatorResult  # noqa: PLC0415
    from ropt.plan import BasicOptimizer  # noqa: PLC0415
    from ropt.results import FunctionResults  # noqa: PLC0415

    rng = rng_for(obs.seed, "c12b", case["i"])
    maximize = bool(rng.random() < 0.5)
    with_con = bool(rng.random() < 0.5)
    nan_calls = set(int(x) for x in rng.choice(12, size=int(rng.integers(0, 4)), replace=False))
    target = rng.normal(size=2)
    tol = [1e-10, 0.05, None, 0.0, 0.5, 2.0][int(rng.integers(6))]
    start = [0.0, 0.0]
    if with_con and rng.random() < 0.7:
        # the unconstrained optimum violates the constraint and the run may start outside it: the history then holds results
        # whose violation lies between the default tolerance and the requested one
        target = np.array([0.6, 0.5]) + rng.normal(size=2) * 0.2
        if rng.random() < 0.5:
            start = [1.0, 0.8]
    cfg = {"variables": {"initial_values": start, "lower_bounds": [-2.0, -2.0], "upper_bounds": [2.0, 2.0]},
           "optimizer": {"method": "slsqp", "max_iterations": 6, "tolerance": 1e-8}, "gradient": {"number_of_perturbations": 3},
           "realizations": {"weights": [1.0, 1.0], "realization_min_success": 0}}
    if with_con:
        cfg["nonlinear_constraints"] = {"lower_bounds": [-np.inf], "upper_bounds": [0.3]}
    calls = [0]

    def evaluator(variables, context):
        k = calls[0]
        calls[0] += 1
        d = ((variables - target) ** 2).sum(axis=1, keepdims=True)
        obj = -d if maximize else d      # user wants to maximise -d  <=> minimise d
        if k in nan_calls and context.perturbations is None:
            obj = np.full_like(obj, np.nan)
        con = variables[:, :1] + variables[:, 1:2] if with_con else None
        return EvaluatorResult(objectives=obj, constraints=con)

    transforms = make_transforms({"oscale": [-1.0 if maximize else 1.0], "flip": maximize}) if (maximize or rng.random() < 0.3) else None
    seen = []
    opt = BasicOptimizer(cfg, evaluator, transforms=transforms, constraint_tolerance=tol)
    opt.set_results_callback(lambda res, tres=None: seen.append((res, tres if tres else res)), transformed=True)
    if with_con and rng.random() < 0.5:
        # a scripted algorithm asks for points with designed violations (0, just above the default tolerance, ..., 3.0);
        # the closer to the (infeasible) target the better the objective, so the requested tolerance decides which is best
        from vlib import scipy_hook  # noqa: PLC0415

        target[:] = [1.7, 1.7]
        viols = [0.0, 3e-10, 1e-6, 0.03, 0.3, 1.0, 3.0]
        order = rng.permutation(len(viols))
        pts = [np.array([-0.5, -0.5])] + [np.array([0.15 + viols[i] / 2, 0.15 + viols[i] / 2]) for i in order]

        def handler(name, orig, args, kw):
            fun = kw.get("fun") if kw.get("fun") is not None else args[0]
            for pnt in pts:
                fun(pnt.copy())

        with scipy_hook.active(handler) as hook:
            opt.run()
        if hook.entered != 1:
            obs.count("interceptor_not_entered")
            return
        obs.count("basic_optimizer_scripted_runs")
    else:
        opt.run()
    obs.count("basic_optimizer_runs")
    best, best_obj = [], None
    for res, tres in seen:
        for u, t in zip(res, tres):
            if not isinstance(t, FunctionResults) or t.functions is None:
                continue
            o = float(t.functions.weighted_objective)
            viol = 0.0
            if t.constraint_info is not None:
                for vv in (t.constraint_info.bound_violation, t.constraint_info.nonlinear_violation):
                    if vv is not None:
                        viol = max(viol, float(np.max(vv)))
            if o == o and viol > 1e-10 and (tol is None or viol <= tol):
                obs.count("basic_results_with_violation_between_default_and_requested_tolerance")
            if o != o or (tol is not None and viol > tol):
                obs.count("basic_skipped_nan_or_infeasible")
                continue
            if best_obj is None or o < best_obj:
                best, best_obj = [u], o
            elif o == best_obj:
                best.append(u)
    got = opt.results
    if best:
        obs.nontrivial("basic", case["i"])
        if not any(got is b for b in best):
            obs.violation("basic_optimizer_results_not_best", maximize=maximize, held=None if got is None else float(got.functions.weighted_objective),
                          expected_optimizer_objective=best_obj, nan_calls=sorted(nan_calls), tolerance=tol)
    obs.feature("basic.maximize" if maximize else "basic.minimize")
