"""C13 - constraint differences and violations are reported exactly for all bound kinds.

Boundary: FunctionResults.constraint_info of real evaluations (EnsembleEvaluator.calculate,
evaluator steps with and without transforms) and the tracker's acceptance of results.
Oracle: diff = value - bound, violation = max(lower - value, value - upper, 0)."""
from __future__ import annotations

import numpy as np

from vlib import ens
from vlib.build import rng_for
from vlib.transforms import make_transforms

PROPERTY = "C13"
LEVEL = "exploration"
TECHNIQUE = "runtime monitoring: constraint_info of real function results (direct evaluations and evaluator steps, with/without scaling transforms) vs the diff/violation formula; tracker acceptance vs max violation"
LEVEL_TEXT = ("5e3 (quick) / 1e5 (thorough) generated configurations mixing finite/infinite variable, linear and non-linear bounds on either side, points inside/outside; "
              "every reported difference and violation compared with the formula; user-domain results under transforms; tracker feasibility iff violations <= tolerance")
LEVEL_NOTE = "trusted: the formula in this file; missing information is accepted only for a bound kind without any finite bound"
ANCHOR_FILES = ["src/ropt/results/_constraint_info.py", "src/ropt/plugins/plan/_utils.py"]
CONTRACT_GROUPS = ['C13']   # icontract layer (vlib/contracts.py) active inside the workload and in the repository's own tests
RULE = ("case = one configuration + point; non-trivial if some constraint kind has a finite bound (info required); distinct key = case index; "
        "monitor_counters count compared entries and how many were violated bounds")
ASSUMPTIONS = ["with transforms the user-domain result must satisfy the formula with the user-domain bounds (to 1e-9 relative)"]
REQUIRED = {"quick": {"entries_compared": 20000, "violated_entries": 3000, "mixed_infinite_both_sides": 300, "tracker_checked": 300, "transformed_compared": 1473, "with_mask": 800, "results_without_functions": 600, "points_within_1e-8_of_a_bound": 700, "explicit_evaluation_vector": 800, "infinite_value_against_a_finite_bound": 200, "__nontrivial__": 2000},
            "thorough": {"entries_compared": 400000, "violated_entries": 60000, "mixed_infinite_both_sides": 6000, "tracker_checked": 6000, "transformed_compared": 24061, "with_mask": 15000, "results_without_functions": 10000, "points_within_1e-8_of_a_bound": 12000, "explicit_evaluation_vector": 15000, "infinite_value_against_a_finite_bound": 3500, "__nontrivial__": 40000}}
N = {"quick": 6000, "thorough": 100000}


def cases(tier, seed):
    for i in range(N[tier]):
        yield {"i": i}


def _bounds(rng, n, center=0.0):
    kinds = rng.choice(["two", "lower", "upper", "free", "eq"], size=n, p=[0.3, 0.2, 0.2, 0.2, 0.1])
    lo, hi = np.empty(n), np.empty(n)
    for i, k in enumerate(kinds):
        a = center + rng.normal()
        w = abs(rng.normal()) + 0.1
        lo[i], hi[i] = {"two": (a, a + w), "lower": (a, np.inf), "upper": (-np.inf, a), "free": (-np.inf, np.inf), "eq": (a, a)}[str(k)]
    return lo, hi


def _formula(obs, name, value, lo, hi, got_lower, got_upper, got_viol, rtol=1e-12):
    ok = True
    want_l, want_u = value - lo, value - hi
    want_v = np.maximum(np.maximum(lo - value, value - hi), 0.0)
    for tag, g, w in (("lower_diff", got_lower, want_l), ("upper_diff", got_upper, want_u), ("violation", got_viol, want_v)):
        g = np.asarray(g)
        obs.count("entries_compared", int(g.size))
        with np.errstate(invalid="ignore"):
            same = (g == w) | (np.isfinite(w) & (np.abs(g - w) <= rtol * (1 + np.abs(w))))      # an infinite difference is matched exactly
        if g.shape != w.shape or not np.all(same):
            obs.violation("formula_" + name + "_" + tag, got=g, want=w, value=value, lower=lo, upper=hi)
            ok = False
    obs.count("violated_entries", int(np.count_nonzero(want_v > 0)))
    gv = np.asarray(got_viol)
    if gv.shape == want_v.shape and np.any((want_v > 0) & (gv == 0) & ((rtol <= 1e-12) | np.isinf(want_v))):
        obs.violation("outside_a_finite_bound_without_positive_violation", kind=name, got=gv, want=want_v, value=value, lower=lo, upper=hi)
        ok = False
    return ok


def run_case(case, obs):
    from ropt.ensemble_evaluator import EnsembleEvaluator  # noqa: PLC0415
    from ropt.plan import OptimizerContext, Plan  # noqa: PLC0415

    rng = rng_for(obs.seed, "c13", case["i"])
    V = int(rng.integers(1, 5))
    n_con = int(rng.integers(0, 4))
    n_lin = int(rng.integers(0, 4))
    lb, ub = _bounds(rng, V)
    lb = np.where(lb == ub, lb - 0.5, lb)  # variable bounds: no equalities needed
    x = rng.normal(size=V) * 1.5           # may violate: results report, they do not enforce
    if rng.random() < 0.25:
        # just outside (or inside) a finite bound, by far less than any tolerance in use: a violation is a violation
        for k in range(V):
            d = float(rng.choice([3e-9, 4e-11, 2e-13])) * float(rng.choice([-1.0, 1.0]))
            if np.isfinite(ub[k]) and rng.random() < 0.5:
                x[k] = ub[k] + d
            elif np.isfinite(lb[k]):
                x[k] = lb[k] - d
        obs.count("points_within_1e-8_of_a_bound")
    spec = {"V": V, "R": int(rng.integers(1, 4)), "oweights": [1.0], "n_con": n_con, "x0": x.tolist(), "lb": lb.tolist(), "ub": ub.tolist(),
            "ensemble": {"kind": "hash", "salt": float(rng.uniform(0, 5))}, "nan": []}
    spec["rweights"] = [1.0] * spec["R"]
    if n_con:
        clo, chi = _bounds(rng, n_con)
        spec["con_lb"], spec["con_ub"] = clo.tolist(), chi.tolist()
        if rng.random() < 0.15:
            # a simulator that overflows: an infinite value on the wrong side of a finite bound is an infinite violation
            # (the sign is chosen so that no difference is inf - inf)
            j = int(rng.integers(n_con))
            sign = 1 if np.isfinite(chi[j]) else (-1 if np.isfinite(clo[j]) else 0)
            if sign:
                spec["inf"] = [{"col": 1 + j, "sign": sign}]
    if n_lin:
        A = np.round(rng.normal(size=(n_lin, V)), 2)
        A[np.all(A == 0, axis=1)] = 1.0
        llo, lhi = _bounds(rng, n_lin)
        spec["linear"] = {"coefficients": A.tolist(), "lower_bounds": llo.tolist(), "upper_bounds": lhi.tolist()}
    # a variable mask and an evaluation away from the configured initial values: differences are about the evaluated vector
    x_eval = None
    if rng.random() < 0.35:
        m = rng.random(V) < 0.6
        if V > 1:
            m[int(rng.integers(V))] = True
        spec["mask"] = [bool(b) for b in m]
        obs.count("with_mask")
    if rng.random() < 0.2:
        # too few successful realizations: the result carries no function values, the differences of the evaluated vector with
        # the variable bounds and the linear constraints are reported all the same
        spec["nan"] = [{"call": 0, "r": 0, "p": -1, "col": 0}]
    case["spec"] = spec
    mixed = bool(np.any(~np.isfinite(lb)) and np.any(~np.isfinite(ub)) and (np.any(np.isfinite(lb)) or np.any(np.isfinite(ub))))
    if mixed:
        obs.count("mixed_infinite_both_sides")
    use_t = rng.random() < 0.4
    tspec = {}
    if use_t:
        tspec = {"vscale": rng.uniform(0.2, 5, size=V).tolist() if rng.random() < 0.8 else None,
                 "voffset": rng.normal(size=V).tolist() if rng.random() < 0.6 else None,
                 "cscale": rng.uniform(0.2, 5, size=n_con).tolist() if n_con and rng.random() < 0.7 else None,
                 "oscale": [float(rng.uniform(0.2, 5))] if rng.random() < 0.5 else None}
        case["tspec"] = tspec
    transforms = make_transforms(tspec) if use_t else None
    ev = ens.RecordingEvaluator(spec)
    tol = [None, 0.0, 1e-10, 0.05, 0.5][int(rng.integers(5))]
    ctx = OptimizerContext(evaluator=ev, plugin_manager=ens.plugin_manager())
    seen = []
    from ropt.enums import EventType  # noqa: PLC0415

    ctx.add_observer(EventType.FINISHED_EVALUATION, lambda e: seen.append(e))
    plan = Plan(ctx)
    step = plan.add_step("evaluator")
    tracker = plan.add_handler("tracker", constraint_tolerance=tol, sources={step}, what="last" if rng.random() < 0.5 else "best")
    if not use_t and rng.random() < 0.5:
        x_eval = x + rng.normal(size=V) * 0.7       # explicit start vector (differs in every entry, masked ones included)
        obs.count("explicit_evaluation_vector")
        plan.run_step(step, config=ens.make_config_dict(spec), transforms=transforms, variables=x_eval)
        x = x_eval
    else:
        plan.run_step(step, config=ens.make_config_dict(spec), transforms=transforms)
    res = seen[0].data["results"][0]
    info = res.constraint_info
    fin_b = bool(np.any(np.isfinite(lb)) or np.any(np.isfinite(ub)))
    need = fin_b or n_lin or n_con
    if need:
        obs.nontrivial(case["i"])
    maxviol = 0.0
    rt = 1e-9 if use_t else 1e-12
    if use_t:
        obs.count("transformed_compared")
    xu = np.asarray(res.evaluations.variables)
    if not np.allclose(xu, x, rtol=1e-12, atol=1e-12):
        obs.violation("user_variables", got=xu, want=x)
        return
    if info is None:
        if need and (np.any((x < lb) | (x > ub)) or n_lin or (n_con and res.functions is not None)):
            obs.violation("constraint_info_missing", lb=lb, ub=ub, x=x, n_lin=n_lin, n_con=n_con)
        return
    # variable bounds
    if info.bound_lower is None or info.bound_upper is None:
        if fin_b:
            v = np.maximum(np.maximum(lb - x, x - ub), 0.0)
            obs.check(not np.any(v > 0), "bound_info_missing_while_violated", lb=lb, ub=ub, x=x, violation=v)
            if not np.any(v > 0):
                obs.violation("bound_info_missing", lb=lb, ub=ub, x=x)
    else:
        _formula(obs, "bound", x, lb, ub, info.bound_lower, info.bound_upper, info.bound_violation, rt)
        maxviol = max(maxviol, float(np.max(np.maximum(np.maximum(lb - x, x - ub), 0.0))))
    if n_lin:
        A = np.asarray(spec["linear"]["coefficients"])
        val = A @ x
        llo, lhi = np.asarray(spec["linear"]["lower_bounds"]), np.asarray(spec["linear"]["upper_bounds"])
        if info.linear_lower is None:
            obs.violation("linear_info_missing")
        else:
            _formula(obs, "linear", val, llo, lhi, info.linear_lower, info.linear_upper, info.linear_violation, 1e-9)
            maxviol = max(maxviol, float(np.max(np.maximum(np.maximum(llo - val, val - lhi), 0.0))))
    if n_con and res.functions is not None:
        cval = np.asarray(res.functions.constraints)
        clo, chi = np.asarray(spec["con_lb"]), np.asarray(spec["con_ub"])
        raw = ev.calls[0].constraints
        want = raw.mean(axis=0)
        fin = np.isfinite(want)      # what the estimate of an overflowing output is, is C01's question; here: which side of the bound
        if spec.get("inf"):
            obs.count("infinite_value_against_a_finite_bound")
            j = spec["inf"][0]["col"] - 1
            big = cval[j] * spec["inf"][0]["sign"]
            obs.check(big > 1e300, "overflowing_constraint_value_not_huge", got=cval, raw=want)
            if info.nonlinear_violation is not None:
                obs.check(info.nonlinear_violation[j] > 1e300, "infinite_value_outside_a_finite_bound_without_violation",
                          violation=info.nonlinear_violation, value=cval, lower=clo, upper=chi)
        if not np.allclose(cval[fin], want[fin], rtol=1e-9, atol=1e-12):
            obs.violation("user_constraint_values", got=cval, want=want)
        if info.nonlinear_lower is None:
            obs.violation("nonlinear_info_missing")
        else:
            _formula(obs, "nonlinear", cval, clo, chi, info.nonlinear_lower, info.nonlinear_upper, info.nonlinear_violation, rt)
            maxviol = max(maxviol, float(np.max(np.maximum(np.maximum(clo - cval, cval - chi), 0.0))))
    if res.functions is None:
        obs.count("results_without_functions")
        return
    # feasibility as seen by the tracker
    tracked = plan.get(tracker, "results")
    if tol is None:
        obs.count("tracker_checked")
        obs.check(tracked is not None, "tracker_rejected_without_tolerance")
    elif abs(maxviol - tol) > 1e-6 * (1 + tol) and not use_t:
        obs.count("tracker_checked")
        feasible = maxviol <= tol
        obs.check((tracked is not None) == feasible, "tracker_feasibility", tracked=tracked is not None, max_violation=maxviol, tolerance=tol)
    obs.sample({"V": V, "lb": lb, "ub": ub, "x": x, "n_lin": n_lin, "n_con": n_con, "transforms": tspec, "max_violation": maxviol})
