"""C02 - stochastic gradient is exact on affine ensembles and zero on fixed variables.

Boundary: GradientResults of the real EnsembleEvaluator.calculate (combined and split
paths) on affine ensembles; oracle: exact ensemble gradient under the conditioning
premise evaluated on the *reported* perturbed variables."""
from __future__ import annotations

import numpy as np

from vlib import ens, models
from vlib.build import rng_for

PROPERTY = "C02"
LEVEL = "exploration"
TECHNIQUE = "runtime monitoring: affine ensembles through the real evaluator (built-in and injected deterministic samplers), exact-gradient oracle gated by the statement's conditioning premise on the reported perturbation matrix"
LEVEL_TEXT = ("2e3 (quick) / 6e4 (thorough) generated affine ensembles x {combined, split} paths with masks, bounds/boundary types, filters, "
              "mean/stddev, failed perturbations/realizations, merged or per-realization estimation; gradients compared to rtol 1e-6 where the premise holds, "
              "fixed entries compared to exactly 0.0; cases missing the premise are counted as trivial")
LEVEL_NOTE = "trusted: vlib.models gradient formulas; premise evaluated by numpy.linalg.svd on reported perturbed_variables - variables"
ANCHOR_FILES = ["src/ropt/ensemble_evaluator/_gradient.py", "src/ropt/ensemble_evaluator/_ensemble_evaluator.py",
                "src/ropt/plugins/function_estimator/default.py"]
RULE = ("case = generated affine ensemble + configuration, run on the combined and the split path; non-trivial if gradients were reported and the conditioning "
        "premise held for every contributing realization (merged: premise of the statement after failures); distinct key = (case index, path)")
ASSUMPTIONS = ["merged estimation is only judged when realizations are identical, or perturbations are shared and no individual perturbation of a contributing realization failed"]
REQUIRED = {"quick": {"grad_entries_compared": 3808, "fixed_entries_zero_checked": 1500, "merged_judged": 150, "cases_with_a_generous_magnitude_clipped_by_narrow_bounds": 60, "stddev_judged": 200, "with_failed_perturbations_judged": 100, "filtered_judged": 150, "with_variable_scaling_judged_candidates": 400, "small_unit_functions_judged": 300, "moved_point_functions_recomputed": 1000, "__nontrivial__": 1056},
            "thorough": {"grad_entries_compared": 111514, "fixed_entries_zero_checked": 40000, "merged_judged": 4000, "cases_with_a_generous_magnitude_clipped_by_narrow_bounds": 1800, "stddev_judged": 5000, "with_failed_perturbations_judged": 3000, "filtered_judged": 4000, "with_variable_scaling_judged_candidates": 12000, "small_unit_functions_judged": 9000, "moved_point_functions_recomputed": 30000, "__nontrivial__": 30000}}
N = {"quick": 2000, "thorough": 60000}
RTOL = 1e-6


def cases(tier, seed):
    for i in range(N[tier]):
        yield {"i": i}


def gen_spec(rng):
    V = int(rng.integers(1, 5))
    R = int(rng.integers(1, 6))
    P = int(rng.integers(1, V + 4))
    n_obj, n_con = int(rng.integers(1, 3)), int(rng.integers(0, 3))
    F = n_obj + n_con
    merge = rng.random() < 0.3
    spec = {"V": V, "R": R, "P": P, "rweights": ens.gen_weights(rng, R), "oweights": ens.gen_oweights(rng, n_obj), "n_con": n_con,
            "x0": [float(x) for x in rng.uniform(-1, 1, size=V)], "merge": bool(merge), "seed": int(rng.integers(1, 10**6))}
    if n_con:
        spec["con_lb"] = [-np.inf] * n_con
        spec["con_ub"] = [float(x) for x in rng.normal(size=n_con)]
    if rng.random() < 0.5 and V > 1:
        m = rng.random(V) < 0.6
        if not m.any():
            m[int(rng.integers(V))] = True
        spec["mask"] = [bool(x) for x in m]
    spec["magnitudes"] = [float(10 ** rng.uniform(-4, 0)) for _ in range(V)] if rng.random() < 0.7 else [float(10 ** rng.uniform(-3, -1))]
    if rng.random() < 0.4:
        spec["lb"] = [float(x - rng.uniform(0.0, 0.5)) for x in spec["x0"]]
        spec["ub"] = [float(x + rng.uniform(0.0, 0.5)) for x in spec["x0"]]
        spec["btypes"] = [int(rng.integers(1, 4)) for _ in range(V)]
        if rng.random() < 0.3:
            spec["ptypes"] = [int(rng.integers(1, 3)) for _ in range(V)]
            spec["magnitudes"] = [float(rng.uniform(0.01, 0.3)) for _ in range(V)]
    elif V >= 2 and rng.random() < 0.15:
        # a generous magnitude on a variable inside a narrow box that clips its perturbations: what counts is the perturbation
        # actually made (the reported difference matrix), not the configured magnitude
        k = int(rng.integers(V))
        spec["magnitudes"] = [0.01] * V
        spec["magnitudes"][k] = 10.0
        spec["lb"] = [float(x - 5.0) for x in spec["x0"]]
        spec["ub"] = [float(x + 5.0) for x in spec["x0"]]
        spec["lb"][k], spec["ub"][k] = spec["x0"][k] - 0.01, spec["x0"][k] + 0.01
        spec["btypes"] = [2] * V
        spec["P"] = P = max(P, V + 3)
        spec["_clipped_generous_magnitude"] = True
    if not merge and rng.random() < 0.45:
        ests = [["mean", "stddev"], ["stddev", "mean"], ["stddev"]][int(rng.integers(3))]
        spec["estimators"] = ests
        spec["omap_est"] = [int(x) for x in rng.integers(0, len(ests), size=n_obj)]
        if n_con:
            spec["cmap_est"] = [int(x) for x in rng.integers(0, len(ests), size=n_con)]
    if rng.random() < 0.3:
        nf = int(rng.integers(1, 3))
        spec["filters"], spec["omap_f"], spec["cmap_f"] = ens.gen_filters(rng, R, n_obj, n_con, nf)
    # samplers
    identical = merge and rng.random() < 0.4
    shared = bool(rng.random() < (0.8 if merge and not identical else 0.3))
    skind = rng.choice(["builtin", "axis", "simplex", "random_design"], p=[0.45, 0.2, 0.1, 0.25])
    if skind == "builtin":
        method = str(rng.choice(["norm", "uniform", "truncnorm", "sobol", "halton", "lhs"]))
        spec["samplers"] = [{"method": method, "shared": shared}]
        if V > 1 and rng.random() < 0.25:
            spec["samplers"].append({"method": "norm", "shared": shared})
            spec["smap"] = [int(x) for x in rng.integers(0, 2, size=V)]
    else:
        if skind == "axis":
            base = np.zeros((P, V))
            for k in range(P):
                base[k, k % V] = 1.0 if (k // V) % 2 == 0 else -0.5
        elif skind == "simplex":
            base = rng.choice([-1.0, 1.0], size=(P, V))
        else:
            base = rng.uniform(-1, 1, size=(P, V))
        if shared:
            samples = base.tolist()
        else:
            samples = [(base * rng.choice([-1.0, 1.0, 0.5], size=(P, 1)))[rng.permutation(P)].tolist() for _ in range(R)]
        spec["samplers"] = [{"method": "verif/design", "options": {"samples": samples}, "shared": False}]
    spec["_shared"] = shared or R == 1
    a = rng.normal(size=(R, F, V))
    b = rng.normal(size=(R, F))
    if rng.random() < 0.25:
        # functions in small units (1e-4 ... 1e-10): exactness does not depend on the numeric scale of a function
        for j in range(F):
            if rng.random() < 0.6:
                k = 10.0 ** -float(rng.integers(4, 11))
                a[:, j, :] *= k
                b[:, j] *= k
    if identical:
        a[:] = a[0]
        b[:] = b[0]
    spec["_identical"] = bool(identical) or R == 1
    spec["ensemble"] = {"kind": "affine", "a": a.tolist(), "b": b.tolist()}
    if not merge and not spec.get("estimators") and not spec.get("filters") and R >= 2 and rng.random() < 0.3:
        # mixed-sign realization weights are valid (only their sum has to be positive): a negatively weighted realization
        # contributes its slope with that sign
        w = np.array(spec["rweights"], dtype=float)
        k = int(rng.integers(R))
        w[k] = -w[k] * 0.5
        if w.sum() > 0.3 * np.abs(w).sum() and w[k] != 0:
            spec["rweights"] = w.tolist()
            spec["_negative_rweight"] = True
    spec["rmin"] = int(rng.integers(0, R + 1)) if rng.random() < 0.5 else 1
    spec["pmin"] = int(rng.integers(1, P + 1))
    spec["_tspec"] = None
    if rng.random() < 0.3:
        spec["_tspec"] = {"vscale": np.round(10 ** rng.uniform(-0.7, 0.7, size=V), 3).tolist(),
                          "voffset": np.round(rng.normal(size=V), 3).tolist() if rng.random() < 0.5 else None}
    nan = []
    if rng.random() < 0.4:
        for r in range(R):
            if rng.random() < 0.15:
                nan.append({"call": None, "r": r, "p": -1, "col": int(rng.integers(F))})
            for k in range(P):
                if rng.random() < 0.12:
                    nan.append({"call": None, "r": r, "p": k, "col": int(rng.integers(F))})
    spec["nan"] = nan
    return spec


def judge_gradient(obs, spec, cfg, gres, fvals, pvals, tag, judge_merged_values=True):
    """fvals: (R,F) raw function values at x; pvals: (R,P,F) raw perturbed values. Returns True if judged non-trivially."""
    n_obj = len(spec["oweights"])
    n_con = spec["n_con"]
    F = n_obj + n_con
    R, P, V = spec["R"], spec["P"], spec["V"]
    a = np.array(spec["ensemble"]["a"])
    if spec.get("_tspec") and spec["_tspec"].get("vscale") is not None:
        # x_user = scale * x_opt + offset: the exact gradient in the coordinates the optimizer works in is scale * slope
        a = a * np.asarray(spec["_tspec"]["vscale"])[None, None, :]
        obs.count("with_variable_scaling_judged_candidates")
    mask = np.ones(V, dtype=bool) if spec.get("mask") is None else np.array(spec["mask"], dtype=bool)
    failed_f = np.isnan(fvals).any(axis=1)
    psucc = ~np.isnan(pvals).any(axis=2)
    failed_g = failed_f | (psucc.sum(axis=1) < ens.pmin_of(spec))
    rep = np.asarray(gres.realizations.failed_realizations)
    if not np.array_equal(rep, failed_g):
        obs.violation("failed_flags_gradient", reported=rep, expected=failed_g, tag=tag)
        return False
    enough = int((~failed_g).sum()) >= ens.rmin_of(spec)
    if not enough:
        obs.count("below_min_success")
        obs.check(gres.gradients is None, "gradients_reported_below_min_success", tag=tag)
        return False
    if gres.gradients is None:
        from checks.c01 import too_few_explained  # noqa: PLC0415

        # filters decide on the function values (function-level failures), estimators on the gradient-level failures
        w1, w2 = too_few_explained(spec, cfg, gres, fvals, failed_f), too_few_explained(spec, cfg, gres, fvals, failed_g)
        why = True if (w1 or w2) else (None if (w1 is None or w2 is None) else False)
        if why is None:
            obs.count("gradients_missing_ambiguous")
        elif why:
            obs.count("gradients_missing_explained_by_filter_or_estimator")
        else:
            obs.violation("gradients_missing", tag=tag, failed=failed_g, rmin=ens.rmin_of(spec), filters=spec.get("filters"),
                          estimators=spec.get("estimators"))
        return False
    G = np.vstack([np.asarray(gres.gradients.objectives), np.asarray(gres.gradients.constraints)] if n_con else
                  [np.asarray(gres.gradients.objectives)])
    # fixed entries: exactly zero, always (also when the premise fails)
    for arr in (G, np.asarray(gres.gradients.weighted_objective)[None, :]):
        fixed = arr[:, ~mask]
        obs.count("fixed_entries_zero_checked", int(fixed.size))
        if fixed.size and not np.all(fixed == 0.0):
            obs.violation("fixed_variable_gradient_nonzero", tag=tag, gradient=arr, mask=mask)
            return False
    if failed_g.all():
        obs.count("all_failed")          # (realization_min_success = 0: NaN gradients, the fixed entries judged above all the same)
        return False
    if np.any(np.isnan(G)):
        obs.count("nan_gradient_trivial")
        # NaN gradients arise legitimately only when no positive weight survives; judged below through 'contributing'
    # weighted objective gradient relation (exact linear combination of the reported objective gradients)
    ow = np.asarray(cfg.objectives.weights)
    wo = ow @ np.asarray(gres.gradients.objectives)
    if not np.allclose(np.asarray(gres.gradients.weighted_objective), wo, rtol=1e-10, atol=1e-12, equal_nan=True):
        obs.violation("weighted_objective_gradient", tag=tag, got=gres.gradients.weighted_objective, want=wo)
        return False
    configured = np.asarray(cfg.realizations.weights)
    pv = np.asarray(gres.evaluations.perturbed_variables)
    x = np.asarray(gres.evaluations.variables)
    D = (pv - x[None, None, :])[..., mask]
    ests = spec.get("estimators") or ["mean"]
    judged = False
    if spec.get("merge") and not judge_merged_values:
        return True  # C03: merged values are judged relatively (differential run), absolute exactness is C02's
    for j in range(F):
        isobj = j < n_obj
        jj = j if isobj else j - n_obj
        fmap = spec.get("omap_f") if isobj else spec.get("cmap_f")
        emap = spec.get("omap_est") if isobj else spec.get("cmap_est")
        rows = gres.realizations.objective_weights if isobj else gres.realizations.constraint_weights
        filtered = fmap is not None and fmap[jj] >= 0
        wforce = np.asarray(rows[jj]) if filtered and rows is not None else configured
        if filtered and rows is None:
            obs.violation("weight_rows_missing", function=j, tag=tag)
            return False
        if not np.any(np.where(failed_g, 0.0, wforce) > 0):
            obs.count("no_positive_weight_survivor")
            continue
        surv = np.where(failed_g, 0.0, wforce)
        if surv.sum() <= 0.1 * np.abs(surv).sum():
            obs.count("trivial.surviving_weights_cancel")      # mixed-sign weights whose surviving sum is (nearly) zero or negative
            continue
        w = models.norm_weights(wforce, failed_g)
        contrib = np.flatnonzero(w != 0)
        if np.any(w < 0):
            obs.count("with_negative_realization_weight_judged_candidates")
        # premise
        ok = True
        if spec.get("merge"):
            if not (spec["_identical"] or (spec["_shared"] and bool(np.all(psucc[contrib])))):
                obs.count("trivial.merged_premise")
                continue
            if spec["_shared"] and not spec["_identical"]:
                # reported perturbations must really be shared (boundary handling is per realization but x is common)
                if not np.allclose(D[contrib], D[contrib[0]][None], atol=0, rtol=0):
                    obs.count("trivial.merged_not_shared_after_bounds")
                    continue
            M = np.vstack([D[r][psucc[r]] for r in contrib])
            Mw = np.vstack([D[r][psucc[r]] * np.sqrt(w[r]) for r in contrib])
            ok = _well_conditioned(M, mask.sum()) and _well_conditioned(Mw, mask.sum())
        else:
            for r in contrib:
                if not _well_conditioned(D[r][psucc[r]], mask.sum()):
                    ok = False
                    break
        if not ok:
            obs.count("trivial.conditioning")
            continue
        est = ests[emap[jj]] if emap is not None else ests[0]
        slopes = a[:, j, :][:, mask]
        if est == "mean":
            want = models.grad_mean(slopes, w)
        else:
            want = models.grad_stddev(fvals[:, j], slopes, w)
            if want is None:
                obs.count("trivial.stddev_degenerate")
                continue
            obs.count("stddev_judged")
        got = G[j][mask]
        obs.count("grad_entries_compared", int(got.size))
        judged = True
        if spec.get("merge"):
            obs.count("merged_judged")
        if filtered:
            obs.count("filtered_judged")
        if not np.all(psucc[contrib]) or failed_g.any():
            obs.count("with_failed_perturbations_judged")
        # tolerance relative to the slopes of this function (its units are the user's business: a function in small units has a
        # small gradient that is just as exact) plus the rounding of the finite differences themselves
        slope_scale = float(np.max(np.abs(slopes[contrib]))) if contrib.size else 0.0
        fmag = float(max(np.nanmax(np.abs(np.where(np.isnan(fvals[:, j]), 0.0, fvals[:, j]))), np.nanmax(np.abs(np.where(np.isnan(pvals[..., j]), 0.0, pvals[..., j])))))
        dnz = np.abs(D[contrib])[np.abs(D[contrib]) > 0]
        dtyp = float(np.median(dnz)) if dnz.size else 1.0
        scale = max(float(np.max(np.abs(want))), slope_scale) + 1e5 * np.finfo(float).eps * fmag / dtyp / RTOL
        if fmag < 1e-3:
            obs.count("small_unit_functions_judged")
        if not np.all(np.abs(got - want) <= RTOL * scale):
            model = None
            if spec.get("merge") and est == "mean":
                # defect model of the known finding: stacked least squares in which only the function differences
                # (not the rows of the perturbation matrix) are multiplied by the normalized weights
                M = np.vstack([D[r][psucc[r]] for r in contrib])
                rhs = np.concatenate([w[r] * (D[r][psucc[r]] @ slopes[r]) for r in contrib])
                pred = np.linalg.lstsq(M, rhs, rcond=None)[0]
                if np.all(np.abs(got - pred) <= 1e-6 * (1.0 + np.max(np.abs(pred)))):
                    model = "merged_fdiff_weighted"
            obs.violation("gradient_value", tag=tag, function=j, estimator=est, merged=bool(spec.get("merge")), got=got, want=want,
                          ratio=(got / want), weights=w, shared=spec["_shared"], identical=spec["_identical"], defect_model=model)
    return judged


def _well_conditioned(M, nfree):
    if M.shape[0] < nfree or nfree == 0:
        return False
    s = np.linalg.svd(M, compute_uv=False)
    if s.size < nfree:
        return False
    s2 = s**2
    tot = s2.sum()
    return bool(tot > 0 and s2[nfree - 1] / tot >= 0.01)


def _some_function_without_survivor(spec, cfg, pm, x):
    from ropt.ensemble_evaluator import EnsembleEvaluator  # noqa: PLC0415
    from vlib.transforms import make_transforms  # noqa: PLC0415

    ev = ens.RecordingEvaluator(spec)
    T = make_transforms(spec["_tspec"]) if spec.get("_tspec") else None
    ee = EnsembleEvaluator(cfg, T, ev, pm)
    (fres,) = ee.calculate(x, compute_functions=True, compute_gradients=False)
    ev2 = ens.RecordingEvaluator(dict(spec, filters=None, omap_f=None, cmap_f=None, merge=False, estimators=None, omap_est=None, cmap_est=None))
    cfg2 = ens.make_config(ev2.spec, T)
    _, gres = EnsembleEvaluator(cfg2, T, ev2, pm).calculate(x, compute_functions=True, compute_gradients=True)
    failed = np.asarray(gres.realizations.failed_realizations)
    configured = np.asarray(cfg.realizations.weights)
    for rows in (fres.realizations.objective_weights, fres.realizations.constraint_weights):
        for row in ([] if rows is None else rows):
            if not np.any(np.where(failed, 0.0, np.asarray(row)) > 0):
                return True
    return not np.any(np.where(failed, 0.0, configured) > 0)


def run_case(case, obs):
    from ropt.ensemble_evaluator import EnsembleEvaluator  # noqa: PLC0415
    from ropt.exceptions import OptimizationAborted  # noqa: PLC0415

    rng = rng_for(obs.seed, "c02", case["i"])
    spec = gen_spec(rng)
    case["spec"] = spec
    from vlib.transforms import make_transforms  # noqa: PLC0415

    T = make_transforms(spec["_tspec"]) if spec.get("_tspec") else None
    cfg = ens.make_config(spec, T)
    pm = ens.plugin_manager()
    x = np.asarray(cfg.variables.initial_values, dtype=float)     # optimizer coordinates
    R, P = spec["R"], spec["P"]
    n_obj, n_con = len(spec["oweights"]), spec["n_con"]
    F = n_obj + n_con
    obs.feature("merge" if spec["merge"] else "per_realization")
    if spec.get("_clipped_generous_magnitude"):
        obs.count("cases_with_a_generous_magnitude_clipped_by_narrow_bounds")
    obs.feature("sampler." + spec["samplers"][0]["method"])
    if spec.get("mask") is not None:
        obs.feature("mask")
    if spec.get("lb") is not None:
        obs.feature("bounds")
    for path in ("combined", "split", "split_moved"):
        ev = ens.RecordingEvaluator(spec)
        ee = EnsembleEvaluator(cfg, T, ev, pm)
        try:
            if path == "split_moved":
                # history: a function request at another point, then a gradient-only request at x.  The gradient has to
                # be the gradient at x computed from function values at x, however close the earlier point was.
                how = ("near", "tiny", "far")[int(rng.integers(3))]
                sgn = rng.choice([-1.0, 1.0], size=x.size)
                if how == "near":
                    delta = sgn * 0.9e-5 * np.abs(x)
                elif how == "tiny":
                    delta = sgn * 1e-13
                else:
                    delta = sgn * rng.uniform(0.1, 1.0, size=x.size)
                (fres0,) = ee.calculate(x - delta, compute_functions=True, compute_gradients=False)
                if fres0.functions is None:
                    obs.count("trivial.split_functions_missing")
                    continue
                out = ee.calculate(x, compute_functions=False, compute_gradients=True)
                gres = out[-1]
                c0, c1 = ev.calls[0], ev.calls[1]
                allv = c1.objectives if n_con == 0 else np.hstack([c1.objectives, c1.constraints])
                if allv.shape[0] == R + R * P:
                    fvals, pvals = allv[:R], allv[R:].reshape(R, P, F)
                    obs.count("moved_point_functions_recomputed")
                else:
                    # function values of the other point were re-used: the gradient below is judged all the same
                    fvals = c0.objectives if n_con == 0 else np.hstack([c0.objectives, c0.constraints])
                    pvals = allv.reshape(R, P, F)
                    obs.count("moved_point_functions_reused")
                obs.count("moved_point." + how)
            elif path == "combined":
                fres, gres = ee.calculate(x, compute_functions=True, compute_gradients=True)
                c = ev.calls[0]
                allv = c.objectives if n_con == 0 else np.hstack([c.objectives, c.constraints])
                fvals, pvals = allv[:R], allv[R:].reshape(R, P, F)
            else:
                (fres,) = ee.calculate(x, compute_functions=True, compute_gradients=False)
                if fres.functions is None:
                    # an optimizer stops here (TOO_FEW_REALIZATIONS): nobody asks for the split gradient afterwards
                    obs.count("trivial.split_functions_missing")
                    continue
                (gres,) = ee.calculate(x, compute_functions=False, compute_gradients=True)
                c0, c1 = ev.calls[0], ev.calls[1]
                fvals = c0.objectives if n_con == 0 else np.hstack([c0.objectives, c0.constraints])
                pv = c1.objectives if n_con == 0 else np.hstack([c1.objectives, c1.constraints])
                pvals = pv.reshape(R, P, F)
                # entries the gradient request flagged inactive carry no information: use the true values there
        except OptimizationAborted:
            obs.count("aborted_by_filter_or_estimator")
            continue
        if judge_gradient(obs, spec, cfg, gres, fvals, pvals, path):
            obs.nontrivial(case["i"], path)
    obs.sample({"V": spec["V"], "R": R, "P": P, "merge": spec["merge"], "mask": spec.get("mask"), "sampler": spec["samplers"][0]["method"],
                "estimators": spec.get("estimators"), "nan_rules": len(spec["nan"]), "pmin": spec["pmin"], "rmin": spec["rmin"]})


def classify(v):
    d = v.get("detail", {})
    if v["kind"] == "gradient_value" and d.get("merged") and d.get("defect_model") == "merged_fdiff_weighted":
        return "merged_gradient_function_differences_weighted"
    return None
