"""C05 - sort filter selects exactly the configured rank window of successful members.

Boundaries: DefaultRealizationFilter.get_realization_weights (real objects from the
plug-in manager), filter construction (window validation), and the
Realizations weight rows of EnsembleEvaluator.calculate with several filters."""
from __future__ import annotations

import itertools

import numpy as np

from vlib import models
from vlib.build import rng_for

PROPERTY = "C05"
LEVEL = "exploration"
TECHNIQUE = "runtime monitoring: real sort filters over all permutations x failure masks x windows x weight vectors (bounded), sort-and-slice reference oracle; weight rows of real evaluations checked per filter map"
LEVEL_TEXT = ("all orderings x failure masks x windows x several configured weight vectors for n<=5 (quick) / n<=7 (thorough), sampled n<=40 with ties and "
              "multi-objective keys (incl. negative objective weights), window validation, and weight rows of real evaluations with 1-3 filters; bounded, not a proof")
LEVEL_NOTE = "trusted: vlib.models.check_sort_weights; ties accepted in any consistent order; realizations with configured weight 0 are invisible to the weight oracle"
ANCHOR_FILES = ["src/ropt/plugins/realization_filter/default.py", "src/ropt/ensemble_evaluator/_ensemble_evaluator.py"]
EXECUTION_COUNTERS = ["sort.calls"]   # executions of the oracle inside the cases (reported as coverage.evaluations)
CONTRACT_GROUPS = ['C05']   # icontract layer (vlib/contracts.py) active inside the workload and in the repository's own tests
RULE = ("case = (n, failure mask, flavour, weight-vector id) with all windows and all orderings of the successful values inside (exhaustive part), "
        "or one sampled configuration; non-trivial if at least one realization succeeded; sub-evaluations in monitor_counters.sort.calls")
ASSUMPTIONS = ["failed realizations reach filters as all-NaN rows",
               "out-of-range windows may be rejected with ConfigError or a pydantic ValidationError, but before any evaluator call"]
CASE_TIMEOUT = 900     # one exhaustive case with seven surviving realizations enumerates 5040 orders x 28 windows
BOUNDS = {"quick": {"exhaustive_n": 5, "sampled_n_max": 25}, "thorough": {"exhaustive_n": 7, "sampled_n_max": 40}}
REQUIRED = {"quick": {"sort.calls": 20000, "sort.too_few_expected": 200, "sort.window_rejected": 50, "sort.e2e_rows": 300, "__nontrivial__": 100},
            "thorough": {"sort.calls": 1000000, "sort.too_few_expected": 5000, "sort.window_rejected": 500, "sort.e2e_rows": 5000, "__nontrivial__": 1000}}

FLAVOURS = ["obj1", "obj_multi", "obj_neg", "con"]
WEIGHTS = ["uniform", "zeros", "random", "mixed_sign"]


def cases(tier, seed):
    nmax = BOUNDS[tier]["exhaustive_n"]
    for n in range(1, nmax + 1):
        for mask in itertools.product([False, True], repeat=n):
            for fl in FLAVOURS:
                for wid in WEIGHTS:
                    if n == nmax and tier == "quick" and fl in ("obj_multi", "obj_neg") and wid != "random":
                        continue
                    yield {"mode": "exhaustive", "n": n, "failed": list(mask), "flavour": fl, "wid": wid}
    for i in range(300 if tier == "quick" else 5000):
        yield {"mode": "sampled", "i": i}
    for i in range(120 if tier == "quick" else 1500):
        yield {"mode": "window", "i": i}
    for i in range(250 if tier == "quick" else 4000):
        yield {"mode": "e2e", "i": i}


_PMO = None


def _pm():
    global _PMO  # noqa: PLW0603
    if _PMO is None:
        from ropt.plugins import PluginManager  # noqa: PLC0415

        _PMO = PluginManager()
    return _PMO


def _weights(wid, n, rng):
    if wid == "uniform":
        return np.ones(n)
    w = rng.integers(1, 6, size=n).astype(float)
    if wid == "mixed_sign":
        # negative entries are valid as long as the sum stays positive: a window without a *positive* weight has too few
        if n > 1:
            neg = rng.random(n) < 0.4
            neg[int(np.argmax(w))] = False
            w = np.where(neg, -0.25 * w, w)
            if w.sum() <= 0.2 * np.abs(w).sum():
                w = np.abs(w)
        return w
    if wid == "zeros" and n > 1:
        z = rng.random(n) < 0.4
        if z.all():
            z[0] = False
        w[z] = 0.0
    return w


def _spell(name, k):
    """The same filter method in the spellings the plug-in manager accepts (qualified, any case)."""
    return [name, "default/" + name, "Default/" + name.title(), name.upper()][k % 4]


def _config(n, flavour, first, last, weights):
    from ropt.config.enopt import EnOptConfig  # noqa: PLC0415

    cfg = {"variables": {"initial_values": [0.0, 0.0]},
           "realizations": {"weights": list(map(float, weights)), "realization_min_success": 0}}
    if flavour == "con":
        cfg["objectives"] = {"weights": [1.0]}
        cfg["nonlinear_constraints"] = {"lower_bounds": [-np.inf, 0.0], "upper_bounds": [1.0, np.inf], "realization_filters": [-1, 0]}
        cfg["realization_filters"] = [{"method": _spell("sort-constraint", n + first + 2 * last), "options": {"sort": 1, "first": first, "last": last}}]
        meta = {}
    else:
        ow, sort = {"obj1": ([1.0], [0]), "obj_multi": ([0.2, 0.5, 0.3], [2, 0]), "obj_neg": ([1.5, -0.5], [1])}[flavour]
        cfg["objectives"] = {"weights": ow, "realization_filters": [0] * len(ow)}
        cfg["realization_filters"] = [{"method": _spell("sort-objective", n + first + 2 * last), "options": {"sort": sort, "first": first, "last": last}}]
        meta = {"ow": ow, "sort": sort}
    return EnOptConfig.model_validate(cfg), meta


def _arrays(flavour, meta, n, failed, keyvals, rng):
    """Build objective/constraint arrays whose sort key equals keyvals (on successes)."""
    if flavour == "con":
        obj = rng.normal(size=(n, 1))
        con = np.stack([rng.normal(size=n) * 50, keyvals], axis=1)
        con[failed] = np.nan
        obj[failed] = np.nan
        return obj, con, keyvals
    ow, sort = np.asarray(meta["ow"]), meta["sort"]
    ow = ow / ow.sum()
    obj = rng.normal(size=(n, len(ow))) * 50
    if flavour == "obj_multi":
        # key = sum_j w[sort_j] * obj[:, sort_j]; choose the first sort column freely, solve the second
        a, b = sort
        obj[:, a] = np.round(rng.normal(size=n), 1)
        obj[:, b] = (keyvals - ow[a] * obj[:, a]) / ow[b]
        key = obj[:, sort] @ ow[sort]
    else:
        obj[:, sort[0]] = keyvals / ow[sort[0]]
        key = obj[:, sort[0]] * ow[sort[0]]
    obj[failed] = np.nan
    return obj, None, key


def _judge(obs, flt, cfg, flavour, meta, n, failed, keyvals, first, last, rng, tag):
    from ropt.enums import OptimizerExitCode  # noqa: PLC0415
    from ropt.exceptions import OptimizationAborted  # noqa: PLC0415

    obj, con, key = _arrays(flavour, meta, n, failed, keyvals, rng)
    configured = np.asarray(cfg.realizations.weights)
    obs.count("sort.calls")
    expect_pos = models.sort_window_positive(key, failed, configured, first, last)
    try:
        w = flt.get_realization_weights(obj, con)
    except OptimizationAborted as exc:
        obs.count("sort.too_few_raised")
        if exc.exit_code != OptimizerExitCode.TOO_FEW_REALIZATIONS:
            obs.violation("wrong_abort_code", code=int(exc.exit_code))
        elif expect_pos is True:
            obs.violation("too_few_but_window_has_positive", key=key, failed=failed, configured=configured, first=first, last=last, flavour=flavour)
        if expect_pos is False:
            obs.count("sort.too_few_expected")
        return
    if expect_pos is False:
        obs.count("sort.too_few_expected")
        obs.violation("value_instead_of_too_few", w=w, key=key, failed=failed, configured=configured, first=first, last=last, flavour=flavour)
        return
    for k, d in models.check_sort_weights(w, key, failed, configured, first, last):
        obs.violation(k, flavour=flavour, tag=tag, **{kk: vv for kk, vv in d.items()})
        break


def run_case(case, obs):
    mode = case["mode"]
    if mode == "window":
        return _window(case, obs)
    if mode == "e2e":
        return _e2e(case, obs)
    if mode == "sampled":
        rng = rng_for(obs.seed, "c05s", case["i"])
        n = int(rng.integers(2, BOUNDS[obs.tier]["sampled_n_max"] + 1))
        failed = rng.random(n) < rng.choice([0.0, 0.2, 0.7])
        fl = FLAVOURS[int(rng.integers(4))]
        wid = WEIGHTS[int(rng.integers(4))]
    else:
        n, failed, fl, wid = case["n"], np.array(case["failed"], dtype=bool), case["flavour"], case["wid"]
        rng = rng_for(obs.seed, "c05", n, case["failed"], fl, wid)
    succ = np.flatnonzero(~failed)
    ns = succ.size
    weights = _weights(wid, n, rng)
    if ns:
        obs.nontrivial(mode, n, failed.tolist(), fl, wid, case.get("i"))
    obs.feature(f"flavour.{fl}")
    obs.feature(f"weights.{wid}")
    obs.feature(f"n.{n}" if n <= 8 else "n.>8")
    base = np.sort(np.round(rng.normal(size=ns) * 3, 2) + np.arange(ns) * 0.013)
    windows = [(f, l) for f in range(n) for l in range(f, n)]
    if mode == "sampled":
        windows = [windows[j] for j in rng.choice(len(windows), size=min(6, len(windows)), replace=False)]
    for first, last in windows:
        cfg, meta = _config(n, fl, first, last, weights)
        flt = _pm().get_plugin("realization_filter", cfg.realization_filters[0].method).create(cfg, 0)
        if mode == "exhaustive":
            perms = itertools.permutations(range(ns)) if ns else [()]
        else:
            perms = [tuple(rng.permutation(ns)) for _ in range(3)]
        for perm in perms:
            keyvals = np.zeros(n)
            vals = base[list(perm)] if ns else base
            if mode == "sampled" and ns > 1 and rng.random() < 0.5:
                vals = np.round(vals)
                obs.count("sort.with_ties")
            keyvals[succ] = vals
            _judge(obs, flt, cfg, fl, meta, n, failed, keyvals, first, last, rng, mode)
    obs.sample({"mode": mode, "n": n, "failed": failed.tolist(), "flavour": fl, "weights": weights.tolist(), "windows": len(windows)})


def _window(case, obs):
    """Out-of-range / inverted windows are rejected when the filter is configured."""
    from ropt.ensemble_evaluator import EnsembleEvaluator  # noqa: PLC0415
    from ropt.exceptions import ConfigError  # noqa: PLC0415

    rng = rng_for(obs.seed, "c05w", case["i"])
    n = int(rng.integers(1, 8))
    fl = FLAVOURS[int(rng.integers(4))]
    kind = ["first_high", "last_high", "inverted", "valid"][int(rng.integers(4))]
    if kind == "first_high":
        first = n + int(rng.integers(0, 3)); last = first + int(rng.integers(0, 2))
    elif kind == "last_high":
        first = int(rng.integers(0, n)); last = n + int(rng.integers(0, 3))
    elif kind == "inverted":
        if n < 2:
            kind, first, last = "valid", 0, 0
        else:
            last = int(rng.integers(0, n - 1)); first = int(rng.integers(last + 1, n))
    if kind == "valid":
        first = int(rng.integers(0, n)); last = int(rng.integers(first, n))
    calls = []

    def evaluator(variables, context):
        calls.append(1)
        raise AssertionError("evaluator must not be called")

    try:
        cfg, _ = _config(n, fl, first, last, np.ones(n))
        EnsembleEvaluator(cfg, None, evaluator, _pm())
        accepted = True
    except (ConfigError, ValueError):
        accepted = False
    obs.nontrivial("window", n, fl, first, last)
    if kind == "valid":
        obs.count("sort.window_valid")
        obs.check(accepted, "valid_window_rejected", n=n, first=first, last=last, flavour=fl)
    else:
        obs.count("sort.window_rejected")
        obs.check(not accepted and not calls, "invalid_window_accepted", n=n, first=first, last=last, flavour=fl, kind=kind)


def _e2e(case, obs):
    """Several filters mapped over objectives and constraints: rows carry exactly their filter's weights."""
    from ropt.config.enopt import EnOptConfig  # noqa: PLC0415
    from ropt.ensemble_evaluator import EnsembleEvaluator  # noqa: PLC0415
    from ropt.enums import OptimizerExitCode  # noqa: PLC0415
    from ropt.evaluator import EvaluatorResult  # noqa: PLC0415
    from ropt.exceptions import OptimizationAborted  # noqa: PLC0415

    rng = rng_for(obs.seed, "c05e", case["i"])
    n = int(rng.integers(2, 9))
    no, nc = int(rng.integers(1, 4)), int(rng.integers(0, 4))
    nf = int(rng.integers(1, 4))
    ow = rng.integers(1, 5, size=no).astype(float)
    if no > 1 and rng.random() < 0.3:
        ow[int(rng.integers(no))] *= -0.3
        if ow.sum() <= 0.5:
            ow = np.abs(ow)
    weights = _weights(WEIGHTS[int(rng.integers(3))], n, rng)
    filters, specs = [], []
    for _ in range(nf):
        first = int(rng.integers(0, n)); last = int(rng.integers(first, n))
        if nc and rng.random() < 0.4:
            s = int(rng.integers(nc))
            filters.append({"method": "sort-constraint", "options": {"sort": s, "first": first, "last": last}})
            specs.append(("con", s, first, last))
        else:
            k = int(rng.integers(1, no + 1))
            s = [int(x) for x in rng.choice(no, size=k, replace=False)]
            filters.append({"method": "sort-objective", "options": {"sort": s, "first": first, "last": last}})
            specs.append(("obj", s, first, last))
    omap = rng.integers(-1, nf, size=no)
    cmap = rng.integers(-1, nf, size=nc) if nc else None
    cfgd = {"variables": {"initial_values": [0.0]}, "realizations": {"weights": weights.tolist(), "realization_min_success": 0},
            "objectives": {"weights": ow.tolist(), "realization_filters": omap.tolist()}, "realization_filters": filters}
    if nc:
        cfgd["nonlinear_constraints"] = {"lower_bounds": [0.0] * nc, "upper_bounds": [np.inf] * nc, "realization_filters": cmap.tolist()}
    cfg = EnOptConfig.model_validate(cfgd)
    failed = rng.random(n) < rng.choice([0.0, 0.25])
    O = np.round(rng.normal(size=(n, no)) * 4, 2) + np.arange(n)[:, None] * 0.0137
    C = np.round(rng.normal(size=(n, nc)) * 4, 2) + np.arange(n)[:, None] * 0.0173 if nc else None
    O[failed] = np.nan
    if nc:
        C[failed] = np.nan

    def evaluator(variables, context):
        return EvaluatorResult(objectives=O.copy(), constraints=None if C is None else C.copy())

    configured = np.asarray(cfg.realizations.weights)
    own = np.asarray(cfg.objectives.weights)
    used = sorted(set(omap[omap >= 0].tolist()) | (set(cmap[cmap >= 0].tolist()) if nc else set()))
    expect = {}
    for f in used:
        kind, s, first, last = specs[f]
        key = np.nan_to_num(C[:, s]) if kind == "con" else np.nan_to_num(O[:, s]) @ own[s]
        expect[f] = (key, first, last, models.sort_window_positive(key, failed, configured, first, last))
    ee = EnsembleEvaluator(cfg, None, evaluator, _pm())
    obs.feature(f"e2e.filters_used.{len(used)}")
    try:
        (res,) = ee.calculate(np.zeros(1), compute_functions=True, compute_gradients=False)
    except OptimizationAborted as exc:
        obs.count("sort.e2e_too_few")
        ok = exc.exit_code == OptimizerExitCode.TOO_FEW_REALIZATIONS and any(e[3] is not True for e in expect.values())
        obs.check(ok, "e2e_unexpected_abort", code=int(exc.exit_code), expect={k: v[3] for k, v in expect.items()})
        obs.nontrivial("e2e", case["i"])
        return
    if res.functions is None:
        # the evaluation ended without a value: right iff some filter's window selects no positive weight (rmin is 0 here)
        obs.count("sort.e2e_too_few")
        obs.nontrivial("e2e", case["i"])
        obs.check(any(e[3] is not True for e in expect.values()), "e2e_unexpected_missing_functions", expect={k: v[3] for k, v in expect.items()}, failed=failed)
        return
    if any(e[3] is False for e in expect.values()):
        obs.violation("e2e_value_instead_of_too_few", expect={k: v[3] for k, v in expect.items()}, failed=failed, weights=weights)
        return
    obs.nontrivial("e2e", case["i"])
    rows_o, rows_c = res.realizations.objective_weights, res.realizations.constraint_weights
    for name, rows, fmap in (("objective", rows_o, omap), ("constraint", rows_c, cmap)):
        if fmap is None:
            continue
        if not np.any(fmap >= 0):
            continue
        if rows is None:
            obs.violation("e2e_rows_missing", which=name, fmap=fmap)
            continue
        for j, f in enumerate(fmap):
            obs.count("sort.e2e_rows")
            row = np.asarray(rows[j])
            if f >= 0:
                key, first, last, _ = expect[int(f)]
                for k, d in models.check_sort_weights(row, key, failed, configured, first, last):
                    obs.violation("e2e_" + k, which=name, index=j, filter=int(f), row=row, **d)
                    break
            else:
                obs.count("sort.e2e_unmapped_rows")
                # an unmapped function must not carry any filter's selection: its row is (proportional to) the configured weights
                nz = configured != 0
                ratio = row[nz] / configured[nz]
                okp = np.all(row[~nz] == 0) and np.allclose(ratio, ratio[0], rtol=1e-12, atol=0) and ratio[0] > 0
                obs.check(bool(okp), "e2e_unmapped_row_not_configured", which=name, index=j, row=row, configured=configured)
    obs.sample({"mode": "e2e", "n": n, "omap": omap.tolist(), "cmap": None if cmap is None else cmap.tolist(), "filters": filters})
