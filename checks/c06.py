"""C06 - evaluator requests are complete and correctly labelled; inactive entries inert; no aliasing.

Boundary: the arguments and the returned objects of the user Evaluator callable, and the
results returned by EnsembleEvaluator.calculate over sequences of requests (functions,
gradient-only, both, batches).  Evaluator values are id-encoded (unique per point,
realization, function), so every reported number identifies the request it came from."""
from __future__ import annotations

import hashlib

import numpy as np

from vlib import ens
from vlib.build import rng_for
from vlib.transforms import make_transforms

PROPERTY = "C06"
LEVEL = "exploration"
TECHNIQUE = "runtime monitoring at the evaluator boundary: recording evaluators (fresh / memoizing / buffer-reusing) with id-encoded values; label-set, value-lookup, activity-flag and garbage-invariance oracles; byte snapshots of evaluator-owned and delivered arrays"
LEVEL_TEXT = ("1.5e3 (quick) / 4e4 (thorough) configurations x request sequences (functions, gradient-only after functions, combined, batches, repeats) x 2 garbage variants x 3 evaluator personalities, "
              "with zero weights, all four filter kinds and all three transform kinds; every row label, carried vector, reported value, activity flag and array identity checked")
LEVEL_NOTE = "trusted: the oracles in this file; aggregates (functions, gradients, weight rows, flags) must be bit-identical under different finite garbage in inactive entries"
ANCHOR_FILES = ["src/ropt/ensemble_evaluator/_evaluator_results.py", "src/ropt/ensemble_evaluator/_ensemble_evaluator.py", "src/ropt/evaluator/_evaluator.py", "src/ropt/results/_utils.py"]
EXECUTION_COUNTERS = ["calls_checked"]   # executions of the oracle inside the cases (reported as coverage.evaluations)
RULE = ("case = configuration + request sequence, executed with two garbage fillings; non-trivial if at least one evaluator call was checked; cases with inactive entries, filters, "
        "transforms, memo hits are counted separately in monitor_counters; distinct key = (case index, personality)")
ASSUMPTIONS = ["garbage written into inactive entries is finite", "with transforms, user-domain quantities are compared to 1e-12 relative"]
REQUIRED = {"quick": {"moved_gradient_request_sequences": 500, "calls_checked": 6000, "rows_checked": 35000, "values_checked": 60000, "inactive_entries_seen": 5000, "garbage_pairs_compared": 1500, "cases_with_huge_finite_garbage": 900, "evaluator_arrays_snapshotted": 10000, "delivered_arrays_checked": 60000, "memo_hits": 300, "with_filters": 400, "with_transforms": 400, "split_gradient_requests": 400, "row_flags_checked": 1500, "__nontrivial__": 1500},
            "thorough": {"moved_gradient_request_sequences": 10000, "calls_checked": 150000, "rows_checked": 800000, "values_checked": 1500000, "inactive_entries_seen": 120000, "garbage_pairs_compared": 40000, "cases_with_huge_finite_garbage": 20000, "evaluator_arrays_snapshotted": 250000, "delivered_arrays_checked": 1500000, "memo_hits": 8000, "with_filters": 10000, "with_transforms": 10000, "split_gradient_requests": 10000, "row_flags_checked": 30000, "__nontrivial__": 36000}}
N = {"quick": 3000, "thorough": 60000}
PERSONALITIES = ["fresh", "memo", "buffer", "buffer_ro"]   # buffer_ro: hands out read-only views of the buffers it reuses


def cases(tier, seed):
    for i in range(N[tier]):
        yield {"i": i, "personality": PERSONALITIES[i % 4]}


class Ev:
    """Recording evaluator with personalities."""

    def __init__(self, spec, personality, garbage, info=True):
        self.spec = spec
        self.ens = ens.Ensemble(spec["ensemble"])
        self.n_obj, self.n_con = len(spec["oweights"]), spec.get("n_con", 0)
        self.nan = spec.get("nan", [])
        self.personality, self.garbage, self.info = personality, garbage, info
        self.calls = []
        self.memo = {}
        self.buffers = {}
        self.memo_hits = 0
        self.use_row_flag = True

    def __call__(self, variables, context):
        from ropt.evaluator import EvaluatorResult  # noqa: PLC0415

        k = len(self.calls)
        rec = {"index": k, "variables": np.array(variables, copy=True), "realizations": np.array(context.realizations, copy=True),
               "perturbations": None if context.perturbations is None else np.array(context.perturbations, copy=True),
               "ao": None if context.active_objectives is None else np.array(context.active_objectives, copy=True),
               "ac": None if context.active_constraints is None else np.array(context.active_constraints, copy=True),
               "active": None if context.active is None else np.array(context.active, copy=True)}
        self.calls.append(rec)
        key = (rec["variables"].tobytes(), rec["realizations"].tobytes(), None if rec["perturbations"] is None else rec["perturbations"].tobytes(),
               None if rec["ao"] is None else rec["ao"].tobytes(), None if rec["ac"] is None else rec["ac"].tobytes())
        if self.personality == "memo" and key in self.memo:
            self.memo_hits += 1
            res, pristine = self.memo[key]
            rec["returned"], rec["pristine"], rec["memo_hit"] = res, pristine, True
            return res
        n = len(rec["realizations"])
        F = self.n_obj + self.n_con
        vals = self.ens.values(rec["variables"], rec["realizations"], F)
        perts = rec["perturbations"] if rec["perturbations"] is not None else np.full(n, -1)
        for rule in self.nan:
            rows = np.flatnonzero((rec["realizations"] == rule["r"]) & (perts == rule["p"]))
            vals[rows, rule["col"]] = np.nan
        if self.spec.get("_inf_values"):
            # infinite values are values (only NaN marks a failure): deterministic in the call index and row
            for i in range(n):
                if (k * 31 + i * 7) % 11 == 0:
                    vals[i, (k + i) % F] = np.inf if (k + i) % 2 else -np.inf
                elif (k * 31 + i * 7) % 11 == 5:
                    # both signs within one group of functions
                    if self.n_obj >= 2:
                        vals[i, 0], vals[i, 1] = np.inf, -np.inf
                    elif self.n_con >= 2:
                        vals[i, self.n_obj], vals[i, self.n_obj + 1] = -np.inf, np.inf
        true_vals = vals.copy()
        edge = abs(self.garbage) > 1e305        # garbage at the edge of the number range: alternating in sign from row to row, still finite
        alt = np.where(np.arange(n) % 2 == 0, 0.9, -0.8) * self.garbage
        for j in range(self.n_obj):
            if rec["ao"] is not None:
                sel = ~rec["ao"][j, rec["realizations"]]
                vals[sel, j] = alt[sel] if edge else self.garbage * (1 + j) + np.arange(n)[sel]
        for j in range(self.n_con):
            if rec["ac"] is not None:
                sel = ~rec["ac"][j, rec["realizations"]]
                vals[sel, self.n_obj + j] = -alt[sel] if edge else -self.garbage * (1 + j) - np.arange(n)[sel]
        if rec["active"] is not None and self.use_row_flag:
            # evaluators typically consult only the per-realization flag: rows flagged inactive get garbage in every column
            sel = ~rec["active"][rec["realizations"]]
            vals[sel, :] = alt[sel, None] if edge else self.garbage * 3.0 + np.arange(n)[sel, None]
        rec["true"] = true_vals
        if self.personality in ("buffer", "buffer_ro"):
            bo = self.buffers.setdefault(("o", n), np.empty((n, self.n_obj)))
            bo[...] = vals[:, : self.n_obj]
            bc = None
            if self.n_con:
                bc = self.buffers.setdefault(("c", n), np.empty((n, self.n_con)))
                bc[...] = vals[:, self.n_obj:]
            bi = self.buffers.setdefault(("i", n), np.empty(n))
            bi[...] = np.arange(n) + 1000.0 * k
            bs = self.buffers.setdefault(("s", n), np.empty(n, dtype="U8"))
            bs[...] = [f"c{k}r{i}" for i in range(n)]
            objs, cons, info = bo, bc, {"tag": bi, "name": bs}
            if self.personality == "buffer_ro":
                def ro(a):
                    if a is None:
                        return None
                    v = a.view()
                    v.flags.writeable = False
                    return v

                objs, cons, info = ro(bo), ro(bc), {"tag": ro(bi), "name": ro(bs)}
        else:
            objs = vals[:, : self.n_obj].copy()
            cons = vals[:, self.n_obj:].copy() if self.n_con else None
            info = {"tag": np.arange(n) + 1000.0 * k, "name": np.array([f"c{k}r{i}" for i in range(n)])}
        res = EvaluatorResult(objectives=objs, constraints=cons, batch_id=k, evaluation_info=info if self.info else {})
        pristine = {"objectives": objs.copy(), "constraints": None if cons is None else cons.copy(), "batch_id": k,
                    "info": {kk: vv.copy() for kk, vv in (info if self.info else {}).items()},
                    "ids": (id(objs), None if cons is None else id(cons), {kk: id(vv) for kk, vv in (info if self.info else {}).items()})}
        rec["returned"], rec["pristine"], rec["memo_hit"] = res, pristine, False
        if self.personality == "memo":
            self.memo[key] = (res, pristine)
        return res


def gen_spec(rng):
    R = int(rng.integers(1, 6))
    V = int(rng.integers(1, 4))
    P = int(rng.integers(1, 4))
    n_obj, n_con = int(rng.integers(1, 3)), int(rng.integers(0, 3))
    spec = {"V": V, "R": R, "P": P, "rweights": ens.gen_weights(rng, R), "oweights": ens.gen_oweights(rng, n_obj), "n_con": n_con,
            "x0": rng.uniform(-0.5, 0.5, size=V).tolist(), "ensemble": {"kind": "hash", "salt": float(rng.uniform(0, 9))},
            "seed": int(rng.integers(1, 10**6)), "rmin": int(rng.integers(0, R + 1)), "pmin": int(rng.integers(1, P + 1)), "magnitudes": [0.05]}
    if rng.random() < 0.5 and R > 1 and 0.0 not in spec["rweights"]:
        spec["rweights"][int(rng.integers(R))] = 0.0
    if rng.random() < 0.3 and R > 1:
        # a tiny weight is not a zero weight: its entries are needed
        k = int(rng.integers(R))
        if spec["rweights"][k] != 0.0 and sum(w for i, w in enumerate(spec["rweights"]) if i != k) >= 1.0:
            spec["rweights"][k] = float(rng.choice([1e-9, 1e-12, 1e-30]))
            spec["_tiny_weight"] = True
    if n_con:
        spec["con_lb"], spec["con_ub"] = [-np.inf] * n_con, rng.normal(size=n_con).tolist()
    if rng.random() < 0.4:
        nf = int(rng.integers(1, 3))
        spec["filters"], spec["omap_f"], spec["cmap_f"] = ens.gen_filters(rng, R, n_obj, n_con, nf)
        if n_con and rng.random() < 0.4:
            spec["cmap_f"] = None      # filters on objectives only
    if rng.random() < 0.3:
        spec["estimators"] = ["mean", "stddev"]
        spec["omap_est"] = rng.integers(0, 2, size=n_obj).tolist()
        if n_con:
            spec["cmap_est"] = rng.integers(0, 2, size=n_con).tolist()
    if rng.random() < 0.3 and V > 1:
        m = rng.random(V) < 0.6
        m[int(rng.integers(V))] = True
        spec["mask"] = m.tolist()
    if rng.random() < 0.15:
        spec["_inf_values"] = True
    nan = []
    F = n_obj + n_con
    if rng.random() < 0.35:
        for r in range(R):
            if rng.random() < 0.2:
                nan.append({"r": r, "p": -1, "col": int(rng.integers(F))})
            for p in range(P):
                if rng.random() < 0.12:
                    nan.append({"r": r, "p": p, "col": int(rng.integers(F))})
    spec["nan"] = nan
    tspec = None
    if rng.random() < 0.4:
        tspec = {"vscale": rng.uniform(0.3, 4, size=V).tolist() if rng.random() < 0.7 else None,
                 "voffset": rng.normal(size=V).tolist() if rng.random() < 0.5 else None,
                 "oscale": rng.uniform(0.3, 4, size=n_obj).tolist() if rng.random() < 0.6 else None,
                 "cscale": rng.uniform(0.3, 4, size=n_con).tolist() if n_con and rng.random() < 0.6 else None}
    seq = []
    for _ in range(int(rng.integers(2, 6))):
        seq.append(str(rng.choice(["f", "fg_split", "both", "batch", "repeat_f", "g_moved"], p=[0.2, 0.25, 0.2, 0.15, 0.1, 0.1])))
    return spec, tspec, seq


def _digest(res):
    h = hashlib.sha256()
    for arr in _result_arrays(res):
        h.update(np.ascontiguousarray(arr).tobytes())
        h.update(str(arr.shape).encode())
    return h.hexdigest()


def _result_arrays(res):
    out = []
    for part in (res.evaluations, res.realizations, getattr(res, "functions", None), getattr(res, "gradients", None),
                 getattr(res, "constraint_info", None)):
        if part is None:
            continue
        for name in part.__slots__ if hasattr(part, "__slots__") else []:
            v = getattr(part, name, None)
            if isinstance(v, np.ndarray):
                out.append(v)
            elif isinstance(v, dict):
                out.extend(a for a in v.values() if isinstance(a, np.ndarray))
    return out


def _aggregates(res):
    """What must not depend on inactive entries: flags, weight rows, functions / gradients, constraint info."""
    out = [res.realizations.failed_realizations, res.realizations.objective_weights, res.realizations.constraint_weights]
    f = getattr(res, "functions", None)
    g = getattr(res, "gradients", None)
    out += [None] * 3 if f is None else [f.weighted_objective, f.objectives, f.constraints]
    out += [None] * 3 if g is None else [g.weighted_objective, g.objectives, g.constraints]
    return out


def _execute(spec, tspec, seq, personality, garbage, rng_seq):
    """Run the request sequence; returns (evaluator, list of (kind, delivered results, call indices, requested optimizer-domain points))."""
    from ropt.ensemble_evaluator import EnsembleEvaluator  # noqa: PLC0415
    from ropt.exceptions import OptimizationAborted  # noqa: PLC0415

    transforms = make_transforms(tspec) if tspec else None
    cfg = ens.make_config(spec, transforms)
    ev = Ev(spec, personality, garbage)
    ee = EnsembleEvaluator(cfg, transforms, ev, ens.plugin_manager())
    V = spec["V"]
    x0 = np.asarray(cfg.variables.initial_values)
    delivered = []
    last = x0
    for kind in seq:
        before = len(ev.calls)
        x = x0 + rng_seq.normal(size=V) * 0.1
        if cfg.variables.mask is not None:
            x = np.where(cfg.variables.mask, x, x0)
        try:
            if kind == "f":
                res = ee.calculate(x, compute_functions=True, compute_gradients=False)
                last = x
            elif kind == "repeat_f":
                x = last
                res = ee.calculate(x, compute_functions=True, compute_gradients=False)
            elif kind == "fg_split":
                r1 = ee.calculate(x, compute_functions=True, compute_gradients=False)
                delivered.append(("f", r1, [before], x, [_digest(r) for r in r1]))
                if r1[0].functions is None:
                    continue       # an optimizer stops here (TOO_FEW_REALIZATIONS); no split gradient request follows
                before = len(ev.calls)
                res = ee.calculate(x, compute_functions=False, compute_gradients=True)
                kind = "g"
                last = x
            elif kind == "g_moved":
                # a function request at another point (near, tiny or far away), then a gradient-only request at x: there are no
                # function values for x, so the request has to be the complete combined one
                how = int(rng_seq.integers(3))
                sgn = rng_seq.choice([-1.0, 1.0], size=V)
                delta = sgn * (0.9e-5 * np.abs(x) if how == 0 else (1e-13 if how == 1 else 0.37))
                if cfg.variables.mask is not None:
                    delta = np.where(cfg.variables.mask, delta, 0.0)
                xprev = x - delta
                r1 = ee.calculate(xprev, compute_functions=True, compute_gradients=False)
                delivered.append(("f", r1, [before], xprev, [_digest(r) for r in r1]))
                if r1[0].functions is None or not np.any(delta):
                    continue
                before = len(ev.calls)
                res = ee.calculate(x, compute_functions=False, compute_gradients=True)
                kind = "both"
                last = x
            elif kind == "both":
                res = ee.calculate(x, compute_functions=True, compute_gradients=True)
                last = x
            else:
                B = int(rng_seq.integers(1, 5))
                x = x0[None, :] + rng_seq.normal(size=(B, V)) * 0.1
                if B >= 2 and rng_seq.random() < 0.4:
                    x[B - 1] = x[0]          # a population may hold the same vector twice: two members, two sets of rows
                if cfg.variables.mask is not None:
                    x = np.where(cfg.variables.mask[None, :], x, x0[None, :])
                res = ee.calculate(x, compute_functions=True, compute_gradients=False)
                last = x[0]
        except OptimizationAborted:
            delivered.append(("aborted", (), list(range(before, len(ev.calls))), x, []))
            continue
        delivered.append((kind, res, list(range(before, len(ev.calls))), x, [_digest(r) for r in res]))
    return cfg, transforms, ev, delivered


def run_case(case, obs):
    rng = rng_for(obs.seed, "c06", case["i"])
    spec, tspec, seq = gen_spec(rng)
    case["spec"], case["tspec"], case["seq"] = spec, tspec, seq
    pers = case["personality"]
    if pers == "memo":
        seq = [k for item in seq for k in ((item, "repeat_f") if item in ("f", "batch") else (item,))]
        case["seq"] = seq
    seed_seq = int(rng.integers(0, 2**31))
    runs = []
    # the second filling: of ordinary size, or large enough to dwarf (1e30), to overflow when squared (1e200, 3e299) or when two
    # of them are subtracted (+-0.9 / 0.8 of the largest number, alternating) - still finite
    g2 = float(rng.choice([-31337.5, -31337.5, 1e30, -1e200, 3e299, float(np.finfo(np.float64).max)]))
    if abs(g2) > 1e6:
        obs.count("cases_with_huge_finite_garbage")
    for garbage in (777.0, g2):
        runs.append(_execute(spec, tspec, seq, pers, garbage, np.random.default_rng(seed_seq)))
    cfg, transforms, ev, delivered = runs[0]
    R, P = spec["R"], spec["P"]
    n_obj, n_con = len(spec["oweights"]), spec["n_con"]
    if spec.get("filters"):
        obs.count("with_filters")
    if tspec:
        obs.count("with_transforms")
    obs.feature("personality." + pers)
    obs.count("moved_gradient_request_sequences", seq.count("g_moved"))
    obs.count("memo_hits", ev.memo_hits)
    tv, to, tc = (transforms.variables, transforms.objectives, transforms.nonlinear_constraints) if transforms else (None, None, None)
    configured = np.asarray(cfg.realizations.weights)
    judged = False
    for kind, results, call_idx, x, _dig in delivered:
        if kind == "aborted" or not results:
            obs.count("aborted_requests")
            continue
        # ---- delivered results: immutable, not aliased with evaluator arrays
        owned = []
        for ci in call_idx:
            ro = ev.calls[ci]["returned"]
            owned += [ro.objectives] + ([ro.constraints] if ro.constraints is not None else []) + list(ro.evaluation_info.values())
        for res in results:
            for arr in _result_arrays(res):
                obs.count("delivered_arrays_checked")
                if arr.flags.writeable:
                    obs.violation("delivered_array_writable", shape=list(arr.shape), dtype=str(arr.dtype))
                    return
                if any(np.shares_memory(arr, o) for o in owned):
                    obs.violation("delivered_array_shares_memory_with_evaluator", shape=list(arr.shape), dtype=str(arr.dtype))
                    return
        for ci in call_idx:
            rec = ev.calls[ci]
            obs.count("calls_checked")
            judged = True
            n = len(rec["realizations"])
            obs.count("rows_checked", n)
            # ---- labels: complete, each once
            if kind in ("f", "batch", "repeat_f"):
                X = np.atleast_2d(x)
                B = X.shape[0]
                want = [(b, r) for b in range(B) for r in range(R)]
                got = [(i // R, int(rec["realizations"][i])) for i in range(n)]
                if n != B * R or sorted(got) != want or rec["perturbations"] is not None:
                    obs.violation("function_request_labels", got=got, want=want)
                    return
                carried = [X[b] for b, _ in got]
            else:
                perts = rec["perturbations"]
                if perts is None:
                    obs.violation("gradient_request_without_perturbation_labels", kind=kind)
                    return
                got = list(zip(rec["realizations"].tolist(), perts.tolist()))
                want = [(r, p) for r in range(R) for p in range(P)]
                if kind == "both":
                    want = [(r, -1) for r in range(R)] + want
                if sorted(got) != sorted(want) or len(got) != len(want):
                    obs.violation("gradient_request_labels", kind=kind, got=got, want=want)
                    return
                gres = results[-1]
                pv = np.asarray(gres.evaluations.perturbed_variables)
                carried = [np.asarray(x) if p < 0 else pv[r, p] for r, p in got]
            # ---- rows carry the user-domain image of the labelled vector
            for i, c in enumerate(carried):
                cu = tv.from_optimizer(np.asarray(c)) if tv is not None else np.asarray(c)
                if not np.allclose(rec["variables"][i], cu, rtol=1e-12, atol=1e-14):
                    obs.violation("row_variables_do_not_match_label", kind=kind, row=i, label=got[i], carried=rec["variables"][i], expected=cu)
                    return
            # ---- reported per-realization values are the returned values for that label (NaN rows propagate)
            ret = rec["pristine"]
            allret = ret["objectives"] if ret["constraints"] is None else np.hstack([ret["objectives"], ret["constraints"]])
            rowfail = np.isnan(allret).any(axis=1)
            for pos, res in enumerate(results):
                isf = hasattr(res, "functions")
                e = res.evaluations.transform_from_optimizer(transforms) if transforms else res.evaluations
                if isf:
                    b = pos if kind == "batch" else 0
                    rows = [i for i, lab in enumerate(got) if (lab[0] == b if kind in ("f", "batch", "repeat_f") else lab[1] == -1)]
                    rows.sort(key=lambda i: got[i][1] if kind in ("f", "batch", "repeat_f") else got[i][0])
                    if kind == "g":
                        continue
                    rep_o, rep_c = np.asarray(e.objectives), (None if e.constraints is None else np.asarray(e.constraints))
                    info = res.evaluations.evaluation_info
                else:
                    rows = [i for i, lab in enumerate(got) if lab[1] >= 0]
                    rows.sort(key=lambda i: got[i])
                    rep_o = np.asarray(e.perturbed_objectives).reshape(R * P, n_obj)
                    rep_c = None if e.perturbed_constraints is None else np.asarray(e.perturbed_constraints).reshape(R * P, n_con)
                    info = {kk: np.asarray(vv).reshape(R * P) for kk, vv in res.evaluations.evaluation_info.items()}
                if len(rows) != rep_o.shape[0]:
                    obs.violation("reported_row_count", kind=kind, rows=len(rows), reported=rep_o.shape[0])
                    return
                for q, i in enumerate(rows):
                    obs.count("values_checked", n_obj + n_con)
                    wo = np.full(n_obj, np.nan) if rowfail[i] else ret["objectives"][i]
                    if not np.allclose(rep_o[q], wo, rtol=1e-12, atol=0, equal_nan=True):
                        obs.violation("reported_objective_not_returned_value", kind=kind, label=got[i], reported=rep_o[q], returned=wo)
                        return
                    if rep_c is not None:
                        wc = np.full(n_con, np.nan) if rowfail[i] else ret["constraints"][i]
                        if not np.allclose(rep_c[q], wc, rtol=1e-12, atol=0, equal_nan=True):
                            obs.violation("reported_constraint_not_returned_value", kind=kind, label=got[i], reported=rep_c[q], returned=wc)
                            return
                    for kk, vv in info.items():
                        if vv[q] != ret["info"][kk][i]:
                            obs.violation("evaluation_info_not_for_label", key=kk, label=got[i], reported=vv[q], returned=ret["info"][kk][i])
                            return
            # ---- the per-realization flag is the union of the per-function flags
            parts = [f for f in (rec["ao"], rec["ac"]) if f is not None]
            if rec["active"] is not None or parts:
                obs.count("row_flags_checked")
                if rec["ao"] is None and rec["ac"] is None:
                    want_active = None
                elif (rec["ao"] is None and n_obj) or (rec["ac"] is None and n_con):
                    want_active = None if not parts else (np.ones(R, dtype=bool) if False else None)
                    # one side unflagged (= all active): every realization is needed
                    want_active = np.ones(R, dtype=bool)
                else:
                    want_active = np.logical_or.reduce(np.vstack(parts), axis=0)
                got_active = rec["active"]
                if want_active is None:
                    okf = got_active is None or bool(np.all(got_active))
                else:
                    # a realization may be flagged inactive only if every one of its function entries is inactive
                    okf = got_active is None or not np.any(~got_active & want_active)
                if not okf:
                    obs.violation("row_flag_inactive_but_function_entry_active", kind=kind, active=got_active, active_objectives=rec["ao"], active_constraints=rec["ac"])
                    return
            # ---- activity flags
            fres = next((r for r in results if hasattr(r, "functions")), None)
            wsrc = results[-1] if kind != "g" else results[0]
            rows_o, rows_c = wsrc.realizations.objective_weights, wsrc.realizations.constraint_weights
            for name, flags, rowsw, nfun in (("objective", rec["ao"], rows_o, n_obj), ("constraint", rec["ac"], rows_c, n_con)):
                if nfun == 0:
                    continue
                inforce = np.asarray(rowsw) if rowsw is not None else np.tile(configured, (nfun, 1))
                if flags is not None:
                    obs.count("inactive_entries_seen", int((~flags).sum()))
                    bad = (~flags) & (inforce != 0)
                    if flags.shape != inforce.shape or np.any(bad):
                        obs.violation("inactive_flag_on_entry_with_nonzero_weight", which=name, kind=kind, flags=flags, weights_in_force=inforce, configured=configured)
                        return
                if kind == "g":
                    obs.count("split_gradient_requests")
                    act = np.ones_like(inforce, dtype=bool) if flags is None else flags
                    if np.any(act & (inforce == 0)):
                        obs.violation("zero_weight_entry_active_in_split_gradient", which=name, flags=None if flags is None else flags, weights_in_force=inforce)
                        return
            # ---- evaluator-owned object and arrays untouched
            retobj = rec["returned"]
            ids = ret["ids"]
            obs.count("evaluator_arrays_snapshotted", 2 + len(ret["info"]))
            if True:
                same_obj = id(retobj.objectives) == ids[0] and (retobj.constraints is None) == (ids[1] is None) and \
                    (retobj.constraints is None or id(retobj.constraints) == ids[1]) and retobj.batch_id == ret["batch_id"]
                if not same_obj:
                    obs.violation("evaluator_result_object_modified", kind=kind, call=ci, personality=pers)
                    return
            if pers not in ("buffer", "buffer_ro"):
                if not np.array_equal(retobj.objectives, ret["objectives"], equal_nan=True) or (
                        ret["constraints"] is not None and not np.array_equal(retobj.constraints, ret["constraints"], equal_nan=True)):
                    obs.violation("evaluator_array_modified", kind=kind, call=ci, personality=pers,
                                  now=retobj.constraints if ret["constraints"] is not None else retobj.objectives,
                                  pristine=ret["constraints"] if ret["constraints"] is not None else ret["objectives"])
                    return
                for kk, vv in ret["info"].items():
                    if not np.array_equal(retobj.evaluation_info[kk], vv):
                        obs.violation("evaluator_info_array_modified", key=kk)
                        return
    # buffers overwritten after the fact: delivered digests must not move
    for b in ev.buffers.values():
        b[...] = 0 if b.dtype.kind != "U" else "zzz"
    for kind, results, _ci, _x, dig in delivered:
        for res, d0 in zip(results, dig):
            if _digest(res) != d0:
                obs.violation("delivered_result_changed_after_delivery", kind=kind, personality=pers)
                return
    # garbage invariance between the two runs
    d2 = runs[1][3]
    if len(d2) != len(delivered):
        obs.violation("garbage_changes_request_sequence")
        return
    for (k1, r1, *_), (k2, r2, *_) in zip(delivered, d2):
        if k1 != k2 or len(r1) != len(r2):
            obs.violation("inactive_garbage_changes_outcome", kind1=k1, kind2=k2)
            return
        for a, b in zip(r1, r2):
            obs.count("garbage_pairs_compared")
            for u, v in zip(_aggregates(a), _aggregates(b)):
                if (u is None) != (v is None) or (u is not None and not np.array_equal(u, v, equal_nan=True)):
                    obs.violation("inactive_garbage_influences_result", kind=k1, with_777=u, with_other=v, configured=configured,
                                  filters=spec.get("filters"), omap_f=spec.get("omap_f"))
                    return
    if judged:
        obs.nontrivial(case["i"], pers)
    obs.sample({"R": R, "P": P, "rweights": spec["rweights"], "filters": spec.get("filters"), "transforms": tspec, "sequence": seq, "personality": pers,
                "evaluator_calls": len(ev.calls)})
