"""C19 - plug-in lookup is deterministic, case-insensitive and side-effect free.

History check: every bounded sequence of add_plugin / get_plugin / is_supported on a
real PluginManager is compared, operation by operation, with a 30-line sequential
reference registry; a second, untouched manager must keep its initial answers."""
from __future__ import annotations

import itertools
import os

from vlib.build import rng_for

PROPERTY = "C19"
LEVEL = "exploration"
TECHNIQUE = "runtime monitoring: exhaustive bounded operation histories on real PluginManager objects vs a sequential reference registry (identity of returned plug-ins, exception types, listing order, isolation of a second manager)"
LEVEL_TEXT = ("all operation sequences up to length 3 (quick) / 4 for every plug-in type and 5 for the optimizer type (thorough) over 19-25 operations; "
              "answers compared after every operation; plus sampled long histories; bounded, not a proof")
LEVEL_NOTE = "trusted: the reference registry in this file; built-in plug-ins are treated as black boxes through is_supported/allows_discovery"
ANCHOR_FILES = ["src/ropt/plugins/_manager.py", "src/ropt/plugins/base.py", "src/ropt/plugins/optimizer/external.py"]
EXECUTION_COUNTERS = ["histories"]   # executions of the oracle inside the cases (reported as coverage.evaluations)
RULE = ("case = (plug-in type, first two operations); inside, every continuation up to the length bound is executed on a fresh manager; "
        "a history is non-trivial if it contains at least one add and one lookup; distinct key = (type, op prefix); per-operation comparisons in monitor_counters.ops_compared")
ASSUMPTIONS = ["method names are matched by the plug-ins themselves (built-ins lower-case them); the bare name 'default' is a bare method name like any other (the statement makes no exception for it; get_plugin builds a message about it that it never raises)"]
EXHAUSTIVE = {"quick": True, "thorough": True}
BOUNDS = {"quick": {"length_all_types": 3}, "thorough": {"length_all_types": 4, "length_optimizer": 5}}
REQUIRED = {"quick": {"histories": 30000, "ops_compared": 90000, "other_manager_probes": 30000, "histories_after_a_registration_for_another_type": 10000, "entry_point_plugin_probes": 300, "__nontrivial__": 500},
            "thorough": {"histories": 2000000, "ops_compared": 8000000, "other_manager_probes": 1000000, "histories_after_a_registration_for_another_type": 600000, "entry_point_plugin_probes": 3000, "__nontrivial__": 1000}}
TYPES = ["optimizer", "sampler", "realization_filter", "function_estimator", "plan_handler", "plan_step"]


def _universe():
    from ropt.plugins.base import Plugin  # noqa: PLC0415

    class P(Plugin):
        def __init__(self, tag, methods, discover, case_sensitive=False):
            self.tag, self._discover, self._cs = tag, discover, case_sensitive
            self.methods = set(methods) if case_sensitive else {m.lower() for m in methods}

        def is_supported(self, method):
            # how a plug-in matches method names is its own business: p4 tells spellings apart by case
            return (method if self._cs else method.lower()) in self.methods

        @property
        def allows_discovery(self):
            return self._discover

        def __repr__(self):
            return f"<P {self.tag}>"

    return {"p1": P("p1", {"a", "b", "grp/a"}, True), "p2": P("p2", {"b", "c", "slsqp", "norm", "mean", "tracker", "optimizer", "sort-objective"}, True),
            "p3": P("p3", {"a", "c", "grp/a"}, False), "p4": P("p4", {"Fast", "b"}, True, case_sensitive=True)}


def _collisions(ptype):
    """Built-in plug-ins whose name is also one of their method names (e.g. the 'default' estimator supports 'default')."""
    return {"function_estimator": ["default/no-such-estimator"], "optimizer": ["scipy/no-such-method"], "sampler": ["scipy/no-such-sampler"],
            "realization_filter": ["default/no-such-filter"], "plan_handler": ["default/no-such-handler"], "plan_step": ["default/no-such-step"]}[ptype]


def _alphabet(ptype):
    adds = [("add", "p1", "p1", False), ("add", "P1", "p1", True), ("add", "p2", "p2", False), ("add", "P2", "p2", True),
            ("add", "p3", "p3", False), ("add", "P3", "p3", True), ("add", "p1", "p2", False), ("add", "P4", "p4", False)]
    builtin = {"optimizer": ["slsqp", "external/slsqp", "SciPy/SLSQP", "external/a"], "sampler": ["norm", "SCIPY/norm"],
               "realization_filter": ["sort-objective", "Default/sort-objective"], "function_estimator": ["mean", "DEFAULT/mean"],
               "plan_handler": ["tracker", "default/Tracker"], "plan_step": ["optimizer", "Default/optimizer"]}[ptype]
    # "a/zz", "b/a": the part before the slash is no plug-in name but a method name of a discoverable plug-in
    gets = ["a", "b", "C", "p1/a", "P1/B", "p2/a", "p3/a", "P3/C", "zz", "p1/zz", "nope/a", "a/zz", "b/a"] + builtin + _collisions(ptype)
    ops = adds + [("get", g) for g in gets] + [("sup", g) for g in ("a", "b", "p3/c", builtin[0])]
    return ops


class Model:
    def __init__(self, initial):
        self.reg = list(initial)  # [(name_lower, plugin)]

    def add(self, name, plugin, prio):
        nl = name.lower()
        if any(n == nl for n, _ in self.reg):
            return "ConfigError"
        if prio:
            self.reg.insert(0, (nl, plugin))
        else:
            self.reg.append((nl, plugin))
        return None

    def get(self, method):
        if "/" in method:
            name, rest = method.split("/", 1)
            for n, p in self.reg:
                if n == name.lower():
                    return p if p.is_supported(rest) else "ConfigError"
            return "ConfigError"
        for _, p in self.reg:
            if p.allows_discovery and p.is_supported(method):
                return p
        return "ConfigError"


def _apply_real(pm, ptype, op, uni):
    from ropt.exceptions import ConfigError  # noqa: PLC0415

    try:
        if op[0] == "add":
            pm.add_plugin(ptype, op[1], uni[op[2]], prioritize=op[3])
            return None
        if op[0] == "get":
            return pm.get_plugin(ptype, op[1])
        return pm.is_supported(ptype, op[1])
    except ConfigError:
        return "ConfigError"


def _apply_model(model, op, uni):
    if op[0] == "add":
        return model.add(op[1], uni[op[2]], op[3])
    if op[0] == "get":
        return model.get(op[1])
    return model.get(op[1]) != "ConfigError"


def _same(a, b):
    if isinstance(a, str) or isinstance(b, str) or a is None or b is None or isinstance(a, bool) or isinstance(b, bool):
        return type(a) is type(b) and a == b
    return a is b


def cases(tier, seed):
    for ptype in TYPES:
        ops = _alphabet(ptype)
        L = BOUNDS[tier]["length_all_types"]
        if tier == "thorough" and ptype == "optimizer":
            L = BOUNDS[tier]["length_optimizer"]
        for i in range(len(ops)):
            for j in range(len(ops)):
                yield {"mode": "exhaustive", "type": ptype, "prefix": [i, j], "length": L}
    for i in range(40 if tier == "quick" else 600):
        yield {"mode": "sampled", "i": i}


def _probe_other(obs, other, ptype, baseline, probes):
    for g in probes:
        obs.count("other_manager_probes")
        got = _apply_real(other, ptype, ("get", g), None)
        if not _same(got, baseline[g]):
            obs.violation("other_manager_affected", method=g, got=repr(got), baseline=repr(baseline[g]), type=ptype)
            return False
    return True


_EP_DIR = None
_EP_MODULE = """from ropt.plugins.optimizer.base import OptimizerPlugin
from ropt.plugins.sampler.base import SamplerPlugin


class _Mixin:
    def is_supported(self, method):
        return method.lower() == "ep_alpha"

    @property
    def allows_discovery(self):
        return True

    def create(self, *args, **kwargs):
        raise NotImplementedError


class EPOptimizerPlugin(_Mixin, OptimizerPlugin):
    pass


class EPSamplerPlugin(_Mixin, SamplerPlugin):
    pass
"""


def worker_setup(obs):
    """A third-party distribution whose plug-ins arrive through the documented entry-point mechanism, under names with upper-case
    characters (installed into a scratch directory on sys.path before the first manager of this process is made)."""
    global _EP_DIR  # noqa: PLW0603
    import atexit  # noqa: PLC0415
    import shutil  # noqa: PLC0415
    import sys  # noqa: PLC0415
    import tempfile  # noqa: PLC0415

    _EP_DIR = tempfile.mkdtemp(prefix="verif_c19_", dir=("/dev/shm" if os.path.isdir("/dev/shm") else None))
    atexit.register(shutil.rmtree, _EP_DIR, ignore_errors=True)
    with open(os.path.join(_EP_DIR, "verif_c19_plugins.py"), "w") as fh:
        fh.write(_EP_MODULE)
    di = os.path.join(_EP_DIR, "verif_c19_plugins-0.0.1.dist-info")
    os.makedirs(di)
    with open(os.path.join(di, "METADATA"), "w") as fh:
        fh.write("Metadata-Version: 2.1\nName: verif-c19-plugins\nVersion: 0.0.1\n")
    with open(os.path.join(di, "entry_points.txt"), "w") as fh:
        fh.write("[ropt.plugins.optimizer]\nMyOpt = verif_c19_plugins:EPOptimizerPlugin\n\n[ropt.plugins.sampler]\nMySampler = verif_c19_plugins:EPSamplerPlugin\n")
    sys.path.insert(0, _EP_DIR)


def worker_teardown(obs):
    """(atexit handlers do not run in the workers: the scratch distribution is removed here)"""
    import shutil  # noqa: PLC0415

    if _EP_DIR is not None:
        shutil.rmtree(_EP_DIR, ignore_errors=True)


def _entry_point_plugins(obs):
    """Plug-ins that arrived through entry points are plug-ins like any other: names case-insensitive, duplicates rejected."""
    from ropt.exceptions import ConfigError  # noqa: PLC0415
    from ropt.plugins import PluginManager  # noqa: PLC0415

    uni = _universe()
    for ptype, name in (("optimizer", "MyOpt"), ("sampler", "MySampler")):
        pm = PluginManager()
        for spelling in (name, name.lower(), name.upper()):
            obs.count("entry_point_plugin_probes")
            req = f"{spelling}/ep_alpha"
            sup = pm.is_supported(ptype, req)
            try:
                got = pm.get_plugin(ptype, req)
            except ConfigError:
                got = None
            if not sup or got is None or not type(got).__name__.startswith("EP"):
                obs.violation("entry_point_plugin_not_found_under_its_name", type=ptype, entry_point=name, request=req, is_supported=sup, got=repr(got))
                return False
            for prio in (False, True):
                try:
                    pm.add_plugin(ptype, spelling, uni["p1"], prioritize=prio)
                except ConfigError:
                    continue
                obs.violation("duplicate_of_an_entry_point_plugin_accepted", type=ptype, entry_point=name, registered_as=spelling, prioritize=prio)
                return False
        if pm.get_plugin(ptype, "ep_alpha") is not pm.get_plugin(ptype, name + "/ep_alpha"):
            obs.violation("entry_point_plugin_not_discovered_by_bare_name", type=ptype, entry_point=name)
            return False
    return True


_PRISTINE = None


def _pristine():
    """Names a manager lists before this process registered anything anywhere (taken once, first thing in the worker)."""
    global _PRISTINE  # noqa: PLW0603
    if _PRISTINE is None:
        from ropt.plugins import PluginManager  # noqa: PLC0415

        pm = PluginManager()
        _PRISTINE = {t: [n for n, _ in pm.plugins(t)] for t in TYPES}
    return _PRISTINE


def _run_history(obs, ptype, seq, ops, uni, other, baseline, probes, probe_other, elsewhere=False):
    from ropt.plugins import PluginManager  # noqa: PLC0415

    pm = PluginManager()
    names = [n for n, _ in pm.plugins(ptype)]
    if names != _pristine()[ptype]:
        obs.violation("new_manager_lists_plugins_registered_on_another_manager", type=ptype, got=names, want=_pristine()[ptype])
        return
    if elsewhere:
        # the manager has served another plug-in type before: the registries of the types are independent
        pm.add_plugin(TYPES[(TYPES.index(ptype) + 1 + sum(seq) % (len(TYPES) - 1)) % len(TYPES)], "Elsewhere", uni["p3"], prioritize=False)
        obs.count("histories_after_a_registration_for_another_type")
    model = Model(list(pm.plugins(ptype)))
    obs.count("histories")
    for k, oi in enumerate(seq):
        op = ops[oi]
        got = _apply_real(pm, ptype, op, uni)
        want = _apply_model(model, op, uni)
        obs.count("ops_compared")
        if not _same(got, want):
            obs.violation("answer_differs", type=ptype, history=[ops[x] for x in seq[: k + 1]], got=repr(got), want=repr(want))
            return
    listing = [(n, p) for n, p in pm.plugins(ptype)]
    if len(listing) != len(model.reg) or any(a[0] != b[0] or a[1] is not b[1] for a, b in zip(listing, model.reg)):
        obs.violation("listing_differs", type=ptype, history=[ops[x] for x in seq], got=[n for n, _ in listing], want=[n for n, _ in model.reg])
        return
    # is_supported <=> lookup succeeds, and lookups are side-effect free: sweep all probes twice
    for rnd in range(2):
        for g in probes:
            a = _apply_real(pm, ptype, ("sup", g), uni)
            b = _apply_real(pm, ptype, ("get", g), uni)
            w = model.get(g)
            obs.count("probe_compared")
            if a != (b != "ConfigError") or not _same(b, w):
                obs.violation("probe_differs", type=ptype, history=[ops[x] for x in seq], probe=g, round=rnd, is_supported=a, got=repr(b), want=repr(w))
                return
    if probe_other:
        _probe_other(obs, other, ptype, baseline, probes)


def run_case(case, obs):
    from ropt.plugins import PluginManager  # noqa: PLC0415

    uni = _universe()
    _pristine()
    if not _entry_point_plugins(obs):
        return
    if case["mode"] == "sampled":
        rng = rng_for(obs.seed, "c19", case["i"])
        ptype = TYPES[int(rng.integers(len(TYPES)))]
        ops = _alphabet(ptype)
        seqs = [[int(x) for x in rng.integers(len(ops), size=int(rng.integers(6, 13)))] for _ in range(200)]
        L = None
    else:
        ptype = case["type"]
        ops = _alphabet(ptype)
        L = case["length"]
        pre = case["prefix"]
        seqs = ([*pre, *rest] for rest in itertools.product(range(len(ops)), repeat=L - 2))
    # method names may themselves contain a slash (the documented external/<plugin>/<method> form): the plug-in name ends at
    # the first one
    probes = sorted({o[1] for o in ops if o[0] in ("get", "sup")} | {"p1/grp/a", "P1/GRP/A", "p2/grp/a", "p3/grp/a", "grp/a", "Fast", "fast", "FAST", "p4/Fast", "P4/fast", "p4/B", "p4/b", "default", "Default", "scipy/default", "default/default"}
                    | ({"external/scipy/slsqp", "external/SciPy/SLSQP", "external/scipy/no-such-method"} if ptype == "optimizer" else set()))
    other = PluginManager()
    baseline = {g: _apply_real(other, ptype, ("get", g), None) for g in probes}
    n = 0
    for seq in seqs:
        _run_history(obs, ptype, seq, ops, uni, other, baseline, probes, probe_other=(n % 7 == 0), elsewhere=(n % 3 == 1))
        kinds = {ops[x][0] for x in seq}
        n += 1
    _probe_other(obs, other, ptype, baseline, probes)
    pre_kinds = {ops[x][0] for x in (case.get("prefix") or [])}
    if case["mode"] == "sampled" or "add" in pre_kinds or L > 2:
        obs.nontrivial(case["mode"], ptype, case.get("prefix"), case.get("i"))
    obs.feature(f"type.{ptype}")
    obs.sample({"type": ptype, "first_history": [ops[x] for x in (case.get("prefix") or [])], "histories_in_case": n})
