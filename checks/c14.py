"""C14 - every run ends with the documented exit code under any failure pattern.

Fault enumeration on real optimizer / evaluator steps: NaN failures injected at a chosen
evaluator call for chosen (realization, perturbation) rows, every max_functions value up to
the unconstrained run length, a user exception at every evaluator call.  Oracle: exit-code
model (reference gate over the labels of the faulted call), delivery of the failing
evaluation's results, evaluation budget, propagation of user exceptions."""
from __future__ import annotations

import itertools
import json
import os

import numpy as np

from vlib import ens, models
from vlib.build import rng_for
from vlib.transforms import make_transforms

PROPERTY = "C14"
LEVEL = "fault_enumeration"
TECHNIQUE = "runtime monitoring under injected faults: NaN failures at every evaluator call index x row sets, every max_functions value, user exceptions at every call, on real SciPy methods and evaluator steps; exit-code reference model + event/delivery monitors"
LEVEL_TEXT = ("for 154 (quick) / 1400 (thorough) base configurations (5 methods + evaluator step, filters of all four kinds, mean/stddev, each transform kind, thresholds incl. realization_min_success=0): "
              "every evaluator call index (<=8 / <=14) x a family of failing row sets, every max_functions value up to the run length, a user exception at every evaluator call; "
              "exit code, escaping exceptions, delivery of the failing evaluation and the evaluation budget judged on each run")
LEVEL_NOTE = "trusted: the gate model in this file (ambiguous situations - ties in a sort window, stddev together with filters, no positive-weight survivor in a gradient - are counted and not judged)"
ANCHOR_FILES = ["src/ropt/optimization/_optimizer.py", "src/ropt/plugins/plan/optimizer.py", "src/ropt/plugins/plan/evaluator.py", "src/ropt/plugins/realization_filter/default.py",
                "src/ropt/results/_constraint_info.py", "src/ropt/plugins/function_estimator/default.py", "src/ropt/ensemble_evaluator/_ensemble_evaluator.py"]
EXECUTION_COUNTERS = ["nan_fault_runs", "max_functions_runs", "user_exception_runs"]   # executions of the oracle inside the cases (reported as coverage.evaluations)
RULE = ("case = (base configuration, fault kind); inside: all fault positions of that kind; a faulted run is non-trivial if the fault was actually reached; distinct key = (case, fault); "
        "monitor_counters: runs per fault kind, expected TOO_FEW runs, budget checks")
ASSUMPTIONS = ["evaluators are deterministic, so a run with max_functions follows the unlimited run up to the stop", "realization weights are positive in this check (zero weights are C01/C06 territory)"]
REQUIRED = {"quick": {"nan_fault_runs": 1339, "two_call_fault_runs": 30, "batch_member_fault_runs": 12, "merged_gradient_cases": 20, "two_call_expected_too_few": 3, "expected_too_few_runs": 700, "expected_ok_runs": 400, "max_functions_runs": 450, "user_exception_runs": 400, "evaluator_step_runs": 78, "filter_induced_too_few": 30, "estimator_induced_too_few": 40, "delivery_checked": 700, "max_functions_runs_with_all_failed_evaluations": 4, "max_functions_runs_with_a_tolerated_failure_in_every_function_evaluation": 5, "evaluator_step_batch_runs_with_too_few_in_a_later_vector": 80, "__nontrivial__": 2218},
            "thorough": {"nan_fault_runs": 15000, "two_call_fault_runs": 270, "batch_member_fault_runs": 100, "merged_gradient_cases": 180, "two_call_expected_too_few": 70, "expected_too_few_runs": 7000, "expected_ok_runs": 4000, "max_functions_runs": 4000, "user_exception_runs": 4000, "evaluator_step_runs": 759, "filter_induced_too_few": 300, "estimator_induced_too_few": 400, "delivery_checked": 7000, "max_functions_runs_with_all_failed_evaluations": 40, "max_functions_runs_with_a_tolerated_failure_in_every_function_evaluation": 80, "evaluator_step_batch_runs_with_too_few_in_a_later_vector": 700, "__nontrivial__": 26097}}
N = {"quick": 154, "thorough": 1400}
KMAX = {"quick": 8, "thorough": 14}
METHODS = ["slsqp", "l-bfgs-b", "evaluator_step", "nelder-mead", "cobyla", "differential_evolution", "evaluator_step"]


def cases(tier, seed):
    for i in range(N[tier]):
        for kind in ("nan", "maxf", "exc"):
            yield {"i": i, "kind": kind}
    for i in range(N[tier] * 4):
        yield {"i": i, "kind": "evalbatch"}


def gen_base(rng, i):
    method = METHODS[i % len(METHODS)]
    V = 2
    R = int(rng.integers(1, 4))
    P = int(rng.integers(1, 3))
    n_obj = int(rng.integers(1, 3))
    n_con = int(rng.integers(0, 2)) if method in ("slsqp", "cobyla", "differential_evolution", "evaluator_step") else 0
    F = n_obj + n_con
    spec = {"V": V, "R": R, "P": P, "rweights": rng.integers(1, 4, size=R).astype(float).tolist(), "oweights": rng.integers(1, 4, size=n_obj).astype(float).tolist(),
            "n_con": n_con, "x0": rng.uniform(-0.3, 0.3, size=V).tolist(), "seed": int(rng.integers(1, 999)), "magnitudes": [0.01],
            "samplers": [{"method": "verif/design", "options": {"samples": (np.eye(V)[:P] if P <= V else np.vstack([np.eye(V), np.ones((P - V, V))])).tolist()}}],
            "ensemble": {"kind": "quad", "a": (rng.normal(size=(R, F, V)) * 0.3).tolist(), "b": rng.normal(size=(R, F)).tolist(), "q": [1.0, 0.6, 0.4][:F],
                         "c": (rng.normal(size=(R, V)) * 0.3).tolist()}, "nan": []}
    if n_con:
        spec["con_lb"], spec["con_ub"] = [-np.inf], [10.0]
    spec["rmin"] = int(rng.choice([0, 1, R]))
    spec["pmin"] = int(rng.choice([1, P]))
    r = rng.random()
    if r < 0.25 and R > 1:
        spec["estimators"] = ["mean", "stddev"]
        spec["omap_est"] = rng.integers(0, 2, size=n_obj).tolist()
        if 1 not in spec["omap_est"]:
            spec["omap_est"][0] = 1
    elif r < 0.6:
        kinds = ["sort-objective", "cvar-objective"] + (["sort-constraint", "cvar-constraint"] if n_con else [])
        m = kinds[int(rng.integers(len(kinds)))]
        if m.startswith("sort"):
            first = int(rng.integers(0, R)); last = int(rng.integers(first, R))
            opts = {"sort": [0] if m.endswith("objective") else 0, "first": first, "last": last}
        else:
            opts = {"sort": [0] if m.endswith("objective") else 0, "percentile": float(rng.choice([0.3, 0.5, 1.0]))}
        spec["filters"] = [{"method": m, "options": opts}]
        spec["omap_f"] = [0] + [-1] * (n_obj - 1)
        if n_con:
            spec["cmap_f"] = [0 if rng.random() < 0.5 else -1]
    if method in ("differential_evolution",):
        spec["lb"], spec["ub"] = [-1.0] * V, [1.0] * V
        spec["optimizer"] = {"method": method, "options": {"seed": 5, "popsize": 2, "maxiter": 1, "tol": 0.9}, "parallel": bool(rng.random() < 0.4)}
    elif method == "evaluator_step":
        if rng.random() < 0.5:
            spec["lb"], spec["ub"] = [-1.0] * V, [1.0] * V      # finite bounds -> constraint info exists
    else:
        if rng.random() < 0.4:
            spec["lb"], spec["ub"] = [-1.0] * V, [1.0] * V if method not in ("cobyla",) else ([-1.0] * V, [1.0] * V)[1]
            if method == "cobyla":
                spec.pop("lb"); spec.pop("ub")
        it = 2 if method != "nelder-mead" else 3
        # the limit is also given through an options dict: with options=None it would not reach SciPy (known finding of C08)
        spec["optimizer"] = {"method": method, "max_iterations": it, "options": {"maxiter": it}, "speculative": bool(rng.random() < 0.3),
                             "split_evaluations": bool(rng.random() < 0.3)}
        if method in ("slsqp", "l-bfgs-b") and not spec.get("estimators") and rng.random() < 0.35:
            spec["merge"] = True       # one least-squares system over all realizations: it can be left without any equation
    tkind = rng.choice(["none", "v", "o", "c", "all"], p=[0.4, 0.15, 0.15, 0.15, 0.15])
    tspec = None
    if tkind != "none":
        tspec = {"vscale": [2.0, 0.5] if tkind in ("v", "all") else None, "voffset": [0.1, -0.2] if tkind in ("v", "all") else None,
                 "oscale": [3.0] * n_obj if tkind in ("o", "all") else None, "cscale": [0.5] * n_con if (tkind in ("c", "all") and n_con) else None}
        if all(v is None for v in tspec.values()):
            tspec = None
    if method != "evaluator_step" and rng.random() < 0.4:
        # the back-end's output is redirected (an option that has nothing to do with failures): the outcome of every run below
        # is what it is without it
        spec["optimizer"] = dict(spec["optimizer"], stdout=ens.scratch_file("optimizer_output"))
        spec["_redirected"] = True
    return method, spec, tspec


class Run:
    pass


def execute(method, spec, tspec, *, raise_at=None):
    """One real step; returns a Run with exit code / escaped exception / events / evaluator calls."""
    from ropt.enums import EventType  # noqa: PLC0415
    from ropt.plan import OptimizerContext, Plan  # noqa: PLC0415

    ev = ens.RecordingEvaluator(spec, raise_at=raise_at)
    ctx = OptimizerContext(evaluator=ev, plugin_manager=ens.plugin_manager())
    events = []
    for et in EventType:
        ctx.add_observer(et, lambda e, et=et: events.append((et.name, e, len(ev.calls))))
    plan = Plan(ctx)
    step = plan.add_step("evaluator" if method == "evaluator_step" else "optimizer")
    run = Run()
    run.ev, run.events, run.exc, run.code = ev, events, None, None
    transforms = make_transforms(tspec) if tspec else None
    import warnings  # noqa: PLC0415

    try:
        with warnings.catch_warnings():
            warnings.simplefilter("ignore")
            run.code = plan.run_step(step, config=ens.make_config_dict(spec), transforms=transforms)
    except BaseException as exc:  # noqa: BLE001
        from vlib.observe import CaseTimeout  # noqa: PLC0415

        if isinstance(exc, (CaseTimeout, KeyboardInterrupt)):
            raise
        run.exc = exc
    run.plan = plan
    return run


def gate(spec, method, call, prev_function_call):
    """Reference: does the faulted evaluator call leave too few? -> 'ok' | 'too_few' | 'ambiguous', plus a reason."""
    R, P = spec["R"], spec["P"]
    n_obj = len(spec["oweights"])
    perts = call.perturbations if call.perturbations is not None else np.full(len(call.realizations), -1)
    objs = call.objectives
    allv = objs if call.constraints is None else np.hstack([objs, call.constraints])
    rowfail = np.isnan(allv).any(axis=1)
    has_f = bool(np.any(perts < 0))
    has_g = bool(np.any(perts >= 0))
    B = 1
    if has_f and not has_g:
        B = len(perts) // R
    rmin = spec["rmin"]
    pmin = min(spec["pmin"], P)
    w = np.asarray(spec["rweights"])
    allow_nan = method in ("differential_evolution", "evaluator_step")   # realization_min_success=0 tolerates an all-failed evaluation unless the algorithm cannot take NaN
    ests = spec.get("estimators") or ["mean"]
    stddev = "stddev" in [ests[k] for k in (spec.get("omap_est") or [0])]
    worst = ("ok", "")
    for b in range(B):
        failed_f = np.zeros(R, dtype=bool)
        if not has_f and prev_function_call is not None:
            # a gradient-only request builds on the function evaluation of the same point: what failed there stays failed
            pc = prev_function_call
            pall = pc.objectives if pc.constraints is None else np.hstack([pc.objectives, pc.constraints])
            prow = np.isnan(pall).any(axis=1)
            for i in range(len(pc.realizations)):
                failed_f[int(pc.realizations[i])] |= bool(prow[i])
        if has_f:
            rows = np.flatnonzero(perts < 0)[b * R:(b + 1) * R] if not has_g else np.flatnonzero(perts < 0)
            for i in rows:
                failed_f[int(call.realizations[i])] |= bool(rowfail[i])
        outcome = None
        if has_f:
            if (~failed_f).sum() < rmin:
                outcome = ("too_few", "threshold_functions")
            elif failed_f.all():
                if spec.get("filters"):
                    outcome = ("too_few", "filter_window_empty")     # no filter can select a successful realization
                else:
                    outcome = ("ok", "all_failed_nan_tolerated") if allow_nan else ("too_few", "all_failed_not_supported")
            else:
                if spec.get("filters"):
                    f = spec["filters"][0]
                    if stddev:
                        outcome = ("ambiguous", "stddev_with_filter")
                    elif f["method"].startswith("sort"):
                        col = f["options"]["sort"][0] if f["method"].endswith("objective") else n_obj + f["options"]["sort"]
                        rows_b = [i for i in rows]
                        key = np.zeros(R)
                        for i in rows_b:
                            key[int(call.realizations[i])] = allv[i, col] if not rowfail[i] else 0.0
                        pos = models.sort_window_positive(key, failed_f, w, f["options"]["first"], f["options"]["last"])
                        if pos is None:
                            outcome = ("ambiguous", "sort_ties")
                        elif pos is False:
                            outcome = ("too_few", "filter_window_empty")
                elif stddev and np.count_nonzero(w[~failed_f] > 0) < 2:
                    outcome = ("too_few", "stddev_needs_two")
        if outcome is None and has_g:
            psucc = np.zeros((R, P), dtype=bool)
            for i in np.flatnonzero(perts >= 0):
                psucc[int(call.realizations[i]), int(perts[i])] = not rowfail[i]
            failed_g = failed_f | (psucc.sum(axis=1) < pmin)
            if (~failed_g).sum() < rmin:
                outcome = ("too_few", "threshold_gradients")
            elif failed_g.all():
                if spec.get("filters"):
                    outcome = ("ambiguous", "filter_weights_vs_gradient_failures")
                else:
                    outcome = ("ok", "all_failed_nan_tolerated") if allow_nan else ("too_few", "all_failed_not_supported")
            elif spec.get("filters") and failed_g.any() and not np.array_equal(failed_g, failed_f):
                outcome = ("ambiguous", "filter_weights_vs_gradient_failures")
            elif stddev and np.count_nonzero(w[~failed_g] > 0) < 2:
                outcome = ("too_few", "stddev_needs_two") if not spec.get("filters") else ("ambiguous", "stddev_with_filter")
        if outcome is None:
            outcome = ("ok", "")
        if outcome[0] == "too_few":
            return outcome
        if outcome[0] == "ambiguous":
            worst = outcome
    return worst


def fault_sets(R, P, labels, rng, tier):
    """Family of failing row sets for one call: single rows, one whole realization, everything, random subsets."""
    uniq = sorted(set(labels))
    sets = [[l] for l in uniq[:6]]
    for r in range(R):
        sets.append([l for l in uniq if l[0] == r])
    sets.append(list(uniq))
    for _ in range(3 if tier == "quick" else 6):
        sets.append([l for l in uniq if rng.random() < 0.5])
    out, seen = [], set()
    for s in sets:
        k = tuple(sorted(s))
        if s and k not in seen:
            seen.add(k)
            out.append(s)
    return out


def _evalbatch(case, obs):
    """An evaluator step given a matrix of variable vectors: every row is an evaluation of its own."""
    from ropt.enums import EventType  # noqa: PLC0415
    from ropt.enums import OptimizerExitCode as X  # noqa: PLC0415,N817
    from ropt.plan import OptimizerContext, Plan  # noqa: PLC0415

    rng = rng_for(obs.seed, "c14b", case["i"])
    R, B, V = int(rng.integers(2, 5)), int(rng.integers(2, 5)), 2
    rmin = int(rng.integers(0, R + 1))
    spec = {"V": V, "R": R, "P": 2, "rweights": [1.0] * R, "oweights": [1.0], "n_con": 0, "x0": [0.1, -0.2], "rmin": rmin,
            "ensemble": {"kind": "hash"}, "nan": []}
    b_fail = int(rng.integers(-1, B))            # -1: no failure
    lost = sorted(int(r) for r in rng.choice(R, size=int(rng.integers(1, R + 1)), replace=False)) if b_fail >= 0 else []
    spec["nan"] = [{"call": 0, "row": b_fail * R + r, "r": r, "p": -1, "col": 0} for r in lost]
    case["spec"] = spec
    ev = ens.RecordingEvaluator(spec)
    ctx = OptimizerContext(evaluator=ev, plugin_manager=ens.plugin_manager())
    delivered = []
    ctx.add_observer(EventType.FINISHED_EVALUATION, lambda e: delivered.append(tuple(e.data["results"])))
    plan = Plan(ctx)
    step = plan.add_step("evaluator")
    X_ = rng.uniform(-1, 1, size=(B, V))
    tag = {"realizations": R, "vectors": B, "realization_min_success": rmin, "failing_vector": b_fail, "failing_realizations": lost}
    try:
        code = plan.run_step(step, config=ens.make_config_dict(spec), variables=X_)
    except Exception as exc:  # noqa: BLE001
        obs.violation("internal_exception_escaped", exception=repr(exc), **tag)
        return
    obs.count("evaluator_step_batch_runs")
    obs.nontrivial("evalbatch", case["i"])
    too_few = b_fail >= 0 and (R - len(lost)) < min(rmin, R)
    if too_few:
        obs.count("evaluator_step_batch_runs_with_too_few_in_one_vector")
        if b_fail > 0:
            obs.count("evaluator_step_batch_runs_with_too_few_in_a_later_vector")
    want = X.TOO_FEW_REALIZATIONS if too_few else X.EVALUATION_STEP_FINISHED
    if code != want:
        obs.violation("exit_code_should_be_too_few" if too_few else "exit_code_too_few_but_enough_successes", got=int(code), want=int(want), **tag)
        return
    if len(delivered) != 1 or len(delivered[0]) != B:
        obs.violation("results_of_the_evaluation_not_delivered_once", events=len(delivered), results=[len(d) for d in delivered], **tag)
        return
    missing = [k for k, r in enumerate(delivered[0]) if r.functions is None]
    if missing != ([b_fail] if too_few else []):
        obs.violation("function_values_missing_for_the_wrong_vectors", missing=missing, **tag)


def run_case(case, obs):
    from ropt.enums import OptimizerExitCode as X  # noqa: PLC0415
    from ropt.results import FunctionResults, GradientResults  # noqa: PLC0415

    if case["kind"] == "evalbatch":
        return _evalbatch(case, obs)
    rng = rng_for(obs.seed, "c14", case["i"])
    method, spec, tspec = gen_base(rng, case["i"])
    case["method"], case["spec"], case["tspec"] = method, spec, tspec
    base = execute(method, spec, tspec)
    finished = X.EVALUATION_STEP_FINISHED if method == "evaluator_step" else X.OPTIMIZER_STEP_FINISHED
    if base.exc is not None:
        if _baseline_abort_expected(spec, method, base):
            obs.count("baseline_aborts")
        obs.violation("baseline_exception", exception=repr(base.exc), method=method)
        return
    Ncalls = len(base.ev.calls)
    obs.feature("method." + method)
    if spec.get("_redirected"):
        obs.count("cases_with_redirected_optimizer_output")
    if spec.get("merge"):
        obs.count("merged_gradient_cases")
    if spec.get("filters"):
        obs.feature("filter." + spec["filters"][0]["method"])
    if tspec:
        obs.feature("transforms")
    F = len(spec["oweights"]) + spec["n_con"]

    def nfunctions(run):
        n = 0
        for name, e, _ in run.events:
            if name == "FINISHED_EVALUATION":
                for r in e.data.get("results", ()):
                    if isinstance(r, FunctionResults):
                        n += 1
        return n

    if case["kind"] == "nan":
        for k in range(min(Ncalls, KMAX[obs.tier])):
            c = base.ev.calls[k]
            perts = c.perturbations if c.perturbations is not None else np.full(len(c.realizations), -1)
            labels = list(zip(c.realizations.tolist(), perts.tolist()))
            for fs in fault_sets(spec["R"], spec["P"], labels, rng, obs.tier):
                s2 = dict(spec)
                col = int(rng.integers(F))
                s2["nan"] = [{"call": k, "r": int(r), "p": int(p), "col": col} for r, p in fs]
                run = execute(method, s2, tspec)
                obs.count("nan_fault_runs")
                if method == "evaluator_step":
                    obs.count("evaluator_step_runs")
                obs.nontrivial(case["i"], "nan", k, fs)
                tag = {"method": method, "call": k, "fault": fs, "column": col, "filters": spec.get("filters"), "estimators": spec.get("estimators"),
                       "rmin": spec["rmin"], "pmin": spec["pmin"], "transforms": tspec}
                if run.exc is not None:
                    obs.violation("internal_exception_escaped", exception=repr(run.exc), **tag)
                    continue
                if len(run.ev.calls) <= k:
                    obs.count("fault_not_reached")
                    continue
                verdict, reason = gate(s2, method, run.ev.calls[k], None)
                if verdict == "ambiguous":
                    obs.count("ambiguous." + reason)
                    continue
                if verdict == "too_few":
                    obs.count("expected_too_few_runs")
                    if reason in ("filter_window_empty",):
                        obs.count("filter_induced_too_few")
                    if reason == "stddev_needs_two":
                        obs.count("estimator_induced_too_few")
                    if run.code != X.TOO_FEW_REALIZATIONS:
                        obs.violation("exit_code_should_be_too_few", got=int(run.code), reason=reason, **tag)
                        continue
                    if len(run.ev.calls) != k + 1:
                        obs.violation("evaluations_after_too_few", calls=len(run.ev.calls), **tag)
                        continue
                    # delivery: the failing evaluation's START is matched by a FINISHED carrying its results
                    obs.count("delivery_checked")
                    names = [(n, len(e.data.get("results", ())) if n == "FINISHED_EVALUATION" else None) for n, e, _ in run.events]
                    ev_names = [n for n, _ in names if n in ("START_EVALUATION", "FINISHED_EVALUATION")]
                    last_fin = [cnt for n, cnt in names if n == "FINISHED_EVALUATION"]
                    if not ev_names or ev_names[-1] != "FINISHED_EVALUATION" or not last_fin or last_fin[-1] == 0:
                        obs.violation("failing_evaluation_not_delivered", reason=reason, events=[n for n, _ in names][-4:], **tag)
                        continue
                else:
                    obs.count("expected_ok_runs")
                    if run.code == X.TOO_FEW_REALIZATIONS:
                        obs.violation("exit_code_too_few_but_enough_successes", reason=reason, **tag)
                        continue
                    if run.code != finished:
                        obs.violation("unexpected_exit_code", got=int(run.code), want=int(finished), **tag)
        # batches (parallel methods): the failure hits the rows of one member of the batch only, not the first one
        for k in range(min(Ncalls, KMAX[obs.tier])):
            c = base.ev.calls[k]
            if c.perturbations is not None or len(c.realizations) <= spec["R"]:
                continue
            B = len(c.realizations) // spec["R"]
            for b in sorted({1, B - 1, int(rng.integers(1, B))}):
                rs = [int(r) for r in range(spec["R"]) if rng.random() < 0.6] or [0]
                s2 = dict(spec)
                col = int(rng.integers(F))
                s2["nan"] = [{"call": k, "row": b * spec["R"] + r, "r": r, "p": -1, "col": col} for r in rs]
                run = execute(method, s2, tspec)
                obs.count("batch_member_fault_runs")
                tag = {"method": method, "call": k, "batch_member": b, "failed_realizations_of_that_member": rs, "filters": spec.get("filters"),
                       "estimators": spec.get("estimators"), "rmin": spec["rmin"], "transforms": tspec}
                if run.exc is not None:
                    obs.violation("internal_exception_escaped", exception=repr(run.exc), **tag)
                    continue
                if len(run.ev.calls) <= k:
                    obs.count("fault_not_reached")
                    continue
                verdict, reason = gate(s2, method, run.ev.calls[k], None)
                obs.nontrivial(case["i"], "nanrow", k, b)
                if verdict == "ambiguous":
                    obs.count("ambiguous." + reason)
                elif verdict == "too_few":
                    obs.count("batch_member_expected_too_few")
                    if run.code != X.TOO_FEW_REALIZATIONS:
                        obs.violation("exit_code_should_be_too_few", got=int(run.code), reason=reason, **tag)
                    elif len(run.ev.calls) != k + 1:
                        obs.violation("evaluations_after_too_few", calls=len(run.ev.calls), **tag)
                elif run.code == X.TOO_FEW_REALIZATIONS:
                    obs.violation("exit_code_too_few_but_enough_successes", reason=reason, **tag)
        # faults in two evaluator calls of one point: a realization fails in the function request, the perturbations of another
        # one fail in the gradient-only request that follows (each tolerated on its own)
        if spec["R"] >= 2:
            for k in range(1, min(Ncalls, KMAX[obs.tier])):
                c = base.ev.calls[k]
                if c.perturbations is None or np.any(c.perturbations < 0):
                    continue
                j = max((q for q in range(k) if base.ev.calls[q].perturbations is None or np.any(base.ev.calls[q].perturbations < 0)), default=None)
                if j is None or (base.ev.calls[j].perturbations is not None and np.any(base.ev.calls[j].perturbations >= 0)):
                    continue
                if len(base.ev.calls[j].realizations) != spec["R"]:
                    continue
                a, b = (int(x) for x in rng.choice(spec["R"], size=2, replace=False))
                s2 = dict(spec)
                col = int(rng.integers(F))
                s2["nan"] = [{"call": j, "r": a, "p": -1, "col": col}] + [{"call": k, "r": b, "p": p, "col": col} for p in range(spec["P"])]
                run = execute(method, s2, tspec)
                obs.count("two_call_fault_runs")
                tag = {"method": method, "function_call": j, "gradient_call": k, "failed_in_function_call": a, "perturbations_failed_of": b, "filters": spec.get("filters"),
                       "estimators": spec.get("estimators"), "rmin": spec["rmin"], "pmin": spec["pmin"], "transforms": tspec}
                if run.exc is not None:
                    obs.violation("internal_exception_escaped", exception=repr(run.exc), **tag)
                    continue
                if len(run.ev.calls) <= j:
                    obs.count("fault_not_reached")
                    continue
                if gate(s2, method, run.ev.calls[j], None)[0] != "ok":
                    continue                      # the function request alone decides (covered above)
                ck = run.ev.calls[k] if len(run.ev.calls) > k else None
                if ck is None or ck.perturbations is None or np.any(ck.perturbations < 0):
                    obs.count("fault_not_reached")
                    continue
                verdict, reason = gate(s2, method, ck, run.ev.calls[j])
                obs.nontrivial(case["i"], "nan2", j, k)
                if verdict == "ambiguous":
                    obs.count("ambiguous." + reason)
                elif verdict == "too_few":
                    obs.count("two_call_expected_too_few")
                    if run.code != X.TOO_FEW_REALIZATIONS:
                        obs.violation("exit_code_should_be_too_few", got=int(run.code), reason=reason, **tag)
                    elif len(run.ev.calls) != k + 1:
                        obs.violation("evaluations_after_too_few", calls=len(run.ev.calls), **tag)
                else:
                    obs.count("two_call_expected_ok")
                    if run.code == X.TOO_FEW_REALIZATIONS:
                        obs.violation("exit_code_too_few_but_enough_successes", reason=reason, **tag)
    elif case["kind"] == "maxf":
        if method == "evaluator_step":
            return
        if method == "differential_evolution" and spec["R"] >= 1 and case["i"] % 2 == 0:
            # all-failed evaluations (tolerated with realization_min_success = 0) still use up the function budget
            spec = dict(spec, rmin=0, filters=None, omap_f=None, cmap_f=None, estimators=None, omap_est=None)
            spec["nan"] = [{"call": k, "r": r, "p": -1, "col": 0} for k in (1, 2, 4) for r in range(spec["R"])]
            base = execute(method, spec, tspec)
            obs.count("max_functions_runs_with_all_failed_evaluations")
            if base.exc is not None:
                obs.violation("baseline_exception", exception=repr(base.exc), method=method)
                return
        elif method in ("slsqp", "l-bfgs-b", "tnc", "cg", "bfgs", "newton-cg", "scipy/default") and spec["R"] >= 2 and case["i"] % 2 == 1:
            # one realization fails in every function evaluation and is tolerated: the run goes on, every evaluation of the functions
            # counts against the budget, once
            spec = dict(spec, rmin=spec["R"] - 1, filters=None, omap_f=None, cmap_f=None, estimators=None, omap_est=None, cmap_est=None)
            spec["nan"] = [{"call": None, "r": 0, "p": -1, "col": 0}]
            base = execute(method, spec, tspec)
            obs.count("max_functions_runs_with_a_tolerated_failure_in_every_function_evaluation")
            if base.exc is not None:
                obs.violation("baseline_exception", exception=repr(base.exc), method=method)
                return
        Fn = nfunctions(base)
        parallel = bool(spec["optimizer"].get("parallel"))
        for m in range(1, Fn + 2):
            s2 = json.loads(json.dumps(_plain(spec)))
            s2 = ens.revive(s2)
            s2["optimizer"]["max_functions"] = m
            run = execute(method, s2, tspec)
            obs.count("max_functions_runs")
            obs.nontrivial(case["i"], "maxf", m)
            tag = {"method": method, "max_functions": m, "unlimited_function_count": Fn, "parallel": parallel}
            if run.exc is not None:
                obs.violation("internal_exception_escaped", exception=repr(run.exc), **tag)
                continue
            got = nfunctions(run)
            batch = 0
            if parallel:
                batch = max((len(e.data.get("results", ())) for n, e, _ in run.events if n == "FINISHED_EVALUATION"), default=0)
            obs.count("budget_checked")
            if got > m + batch:
                obs.violation("more_function_evaluations_than_max_functions", evaluated=got, **tag)
                continue
            # the budget stops the run at the first request made after m function evaluations completed (a gradient-only
            # request counts): read that off the unlimited run's event stream
            cum, reached, later = 0, False, False
            for n, e, _ in base.events:
                if n == "FINISHED_EVALUATION":
                    cum += sum(1 for r in e.data.get("results", ()) if isinstance(r, FunctionResults))
                    if cum >= m:
                        reached = True
                elif n == "START_EVALUATION" and reached:
                    later = True
            want = X.MAX_FUNCTIONS_REACHED if (reached and later) else base.code
            if parallel and m < Fn and run.code == base.code and got >= Fn:
                obs.count("parallel_batch_finished_within_slack")
                continue
            if run.code != want:
                obs.violation("max_functions_exit_code", got=int(run.code), want=int(want), evaluated=got, **tag)
    else:
        class UserError(RuntimeError):
            pass

        class SimulatorCrash(Exception):
            pass

        for i in range(min(Ncalls, KMAX[obs.tier])):
            err = [UserError, ValueError, SimulatorCrash, KeyError, OSError, ZeroDivisionError, AssertionError][(i + case["i"]) % 7](f"user failure at evaluator call {i}")
            run = execute(method, spec, tspec, raise_at={i: err})
            obs.count("user_exception_runs")
            obs.nontrivial(case["i"], "exc", i)
            if run.exc is not err:
                # a back-end may wrap what its callables raise (SciPy's differential_evolution turns TypeError/ValueError into a
                # RuntimeError "from" the original): not swallowed as long as the user's exception is in the chain of causes
                chain, cur = [], run.exc
                while cur is not None and len(chain) < 10:
                    chain.append(cur)
                    cur = cur.__cause__ or cur.__context__
                if any(c is err for c in chain):
                    obs.count("user_exception_wrapped_by_the_back_end")
                else:
                    obs.violation("user_exception_swallowed_or_replaced", call=i, method=method, escaped=repr(run.exc), code=None if run.code is None else int(run.code))
    obs.sample({"method": method, "R": spec["R"], "P": spec["P"], "filters": spec.get("filters"), "estimators": spec.get("estimators"), "transforms": tspec,
                "rmin": spec["rmin"], "pmin": spec["pmin"], "baseline_evaluator_calls": Ncalls, "fault_kind": case["kind"]})


def _baseline_abort_expected(spec, method, base):
    return False


def _plain(x):
    from vlib.observe import _jsonable  # noqa: PLC0415

    return _jsonable(x)
