"""C09 - fixed (masked-out) variables never move and never receive a gradient.

Boundary: every vector the evaluator receives (unperturbed and perturbed), every result
delivered through FINISHED_EVALUATION, and the vectors the algorithm sees (captured at the
scipy.optimize boundary).  Workloads: scripted request sequences, real SciPy methods,
and nested plans whose inner optimization owns the complementary variables."""
from __future__ import annotations

import itertools

import numpy as np

from vlib import ens, scipy_hook
from vlib.build import rng_for
from vlib.transforms import make_transforms

PROPERTY = "C09"
LEVEL = "exploration"
TECHNIQUE = "runtime monitoring: evaluator rows and delivered results of scripted request sequences, real SciPy methods and nested plans checked entry by entry against the reference value of every masked-out variable; algorithm-side vector lengths captured at the scipy.optimize boundary"
LEVEL_TEXT = ("all masks for V<=4 (quick) / V<=5 (thorough) x {scripted requests, SLSQP, L-BFGS-B, Nelder-Mead, Powell, DE sequential/vectorized} x sampler assignments x bounds/boundary types x variable scaling, "
              "plus nested plans (inner optimization owns the complementary variables, non-speculative and speculative, truncated inner runs); exact equality (1e-12 relative under scaling); gradients == 0.0")
LEVEL_NOTE = "trusted: reference bookkeeping in this file; the hand-off function of a nested plan is user code (ours resets the inner tracker per run and returns the inner step's best result)"
ANCHOR_FILES = ["src/ropt/optimization/_optimizer.py", "src/ropt/ensemble_evaluator/_ensemble_evaluator.py", "src/ropt/plugins/sampler/scipy.py", "src/ropt/plugins/optimizer/scipy.py"]
RULE = ("case = (mode, V, mask, method/script, options); non-trivial if the mask fixes at least one variable and at least one evaluator row was checked; distinct key = case; "
        "monitor_counters: rows/entries checked, gradient entries checked, nested hand-offs")
ASSUMPTIONS = ["initial values inside the bounds", "nested cases use no variable transform (domain convention of the hand-off is user code)"]
REQUIRED = {"quick": {"evaluator_rows_checked": 20000, "fixed_entries_checked": 30000, "gradient_fixed_entries_checked": 2000, "result_vectors_checked": 5000, "algorithm_vectors_checked": 3000, "nested_handoffs": 150, "nested_rows_after_handoff": 1000, "explicit_start_vector": 100, "gradients_with_all_realizations_failed": 25, "step_reruns_without_the_nested_plan": 40, "with_relative_perturbations": 50, "requests_in_another_number_type": 80, "masks_given_as_integers": 100, "fixed_variable_declared_integer": 70, "step_reruns_with_the_mask_replaced_in_the_same_dictionary": 40, "__nontrivial__": 300},
            "thorough": {"evaluator_rows_checked": 315045, "fixed_entries_checked": 523595, "gradient_fixed_entries_checked": 60000, "result_vectors_checked": 150000, "algorithm_vectors_checked": 100000, "nested_handoffs": 5000, "nested_rows_after_handoff": 28068, "explicit_start_vector": 903, "gradients_with_all_realizations_failed": 400, "step_reruns_without_the_nested_plan": 800, "with_relative_perturbations": 400, "requests_in_another_number_type": 800, "masks_given_as_integers": 800, "fixed_variable_declared_integer": 400, "step_reruns_with_the_mask_replaced_in_the_same_dictionary": 400, "__nontrivial__": 4000}}
BOUNDS = {"quick": {"Vmax": 4}, "thorough": {"Vmax": 5}}
METHODS = ["scripted", "slsqp", "l-bfgs-b", "nelder-mead", "powell", "de", "de_vec", "workarray"]


def cases(tier, seed):
    Vmax = BOUNDS[tier]["Vmax"]
    reps = 3 if tier == "quick" else 12
    for V in range(1, Vmax + 1):
        for mask in itertools.product([False, True], repeat=V):
            if not any(mask):
                continue
            for m in METHODS:
                for rep in range(reps):
                    yield {"mode": "single", "V": V, "mask": list(mask), "method": m, "rep": rep}
    for i in range(120 if tier == "quick" else 3000):
        yield {"mode": "nested", "i": i}


def _roundtrip_atol(tv):
    """What a round trip through a variable scaler can resolve: a few ulp of its offsets and scales (0 without a scaler)."""
    if tv is None:
        return 0.0
    mags = [1.0]
    for name in ("_offsets", "_scales"):
        a = getattr(tv, name, None)
        if a is not None:
            mags.append(float(np.max(np.abs(a))))
    return 1e-14 * max(mags)


class Monitor:
    """Evaluator wrapper that checks every row against the current reference of the step that is running."""

    def __init__(self, obs, inner_ev, tv=None):
        self.obs, self.ev, self.tv = obs, inner_ev, tv
        self.atol = _roundtrip_atol(tv)
        self.stack = []          # [{"mask": bool array, "ref": user-domain full vector, "name": str}]
        self.ok = True
        self.after_handoff = False

    def __call__(self, variables, context):
        if self.stack and self.ok:
            cur = self.stack[-1]
            fixed = ~cur["mask"]
            self.obs.count("evaluator_rows_checked", int(variables.shape[0]))
            if cur.get("handoffs"):
                self.obs.count("nested_rows_after_handoff", int(variables.shape[0]))
            if fixed.any():
                self.obs.count("fixed_entries_checked", int(variables.shape[0] * fixed.sum()))
                ref = cur["ref"][fixed]
                got = variables[:, fixed]
                bad = ~np.isclose(got, ref[None, :], rtol=1e-12 if self.tv is not None else 0.0, atol=self.atol)
                if bad.any():
                    r = int(np.argwhere(bad)[0][0])
                    self.obs.violation("fixed_variable_moved_in_evaluator_row", step=cur["name"], row=r, got=variables[r], reference=cur["ref"], mask=cur["mask"],
                                       perturbation=None if context.perturbations is None else int(context.perturbations[r]))
                    self.ok = False
        return self.ev(variables, context)


def _gen_spec(rng, V, mask, method, refusable=False):
    R, P = int(rng.integers(1, 4)), int(rng.integers(1, 4))
    n_con = int(rng.integers(0, 2)) if method in ("scripted", "slsqp", "de") else 0
    F = 1 + n_con
    x0 = rng.uniform(-0.4, 0.4, size=V)
    spec = {"V": V, "R": R, "P": P, "rweights": [1.0] * R, "oweights": [1.0], "n_con": n_con, "x0": x0.tolist(), "mask": mask, "seed": int(rng.integers(1, 9999)),
            "magnitudes": rng.uniform(0.005, 0.2, size=V).tolist(),
            "ensemble": {"kind": "quad", "a": rng.normal(size=(R, F, V)).tolist(), "b": rng.normal(size=(R, F)).tolist(), "q": [1.0, 0.3][:F], "c": (rng.normal(size=(R, V)) * 0.3).tolist()},
            "nan": []}
    if n_con:
        spec["con_lb"], spec["con_ub"] = [-np.inf], [5.0]
    bounded = method in ("de", "de_vec") or rng.random() < 0.5
    if bounded:
        spec["lb"] = (x0 - rng.uniform(0.0, 0.6, size=V)).tolist()
        spec["ub"] = (x0 + rng.uniform(0.05, 0.6, size=V)).tolist()
        spec["btypes"] = [int(t) for t in rng.integers(1, 4, size=V)]
        if rng.random() < 0.3:
            # magnitudes relative to the bound range, for some or all variables
            spec["ptypes"] = [2] * V if rng.random() < 0.5 else [int(t) for t in rng.integers(1, 3, size=V)]
            fixed_rel = [v for v in range(V) if not mask[v] and spec["ptypes"][v] == 2]
            if refusable and fixed_rel and method not in ("de", "de_vec") and rng.random() < 0.7:
                # ... and a fixed variable without a finite range: ropt refuses such a configuration; whatever accepts it must
                # still not move the fixed variable
                v = fixed_rel[int(rng.integers(len(fixed_rel)))]
                side = int(rng.integers(3))
                if side != 0:
                    spec["lb"][v] = -np.inf
                if side != 1:
                    spec["ub"][v] = np.inf
                spec["may_be_refused"] = True
    ns = int(rng.choice([1, 2, 3], p=[0.5, 0.35, 0.15]))
    meths = ["norm", "uniform", "sobol", "lhs", "halton", "truncnorm"]
    spec["samplers"] = [{"method": str(rng.choice(meths)), "shared": bool(rng.random() < 0.4)} for _ in range(ns)]
    if ns > 1:
        spec["smap"] = [int(t) for t in rng.integers(0, ns, size=V)]
    m = {"scripted": "slsqp", "de": "differential_evolution", "de_vec": "differential_evolution", "workarray": "verif/workarray"}.get(method, method)
    spec["optimizer"] = {"method": m, "max_iterations": 3, "speculative": bool(rng.random() < 0.4), "split_evaluations": bool(rng.random() < 0.3),
                         "parallel": method == "de_vec"}
    if m == "differential_evolution":
        spec["optimizer"]["options"] = {"seed": int(rng.integers(999)), "popsize": 2, "maxiter": 2, "tol": 0.9}
        spec["optimizer"]["max_iterations"] = None
        spec["optimizer"]["speculative"] = False
    spec["optimizer"] = {k: v for k, v in spec["optimizer"].items() if v is not None}
    if m != "differential_evolution" and rng.random() < 0.3:
        # failures: with a threshold of zero a gradient is still reported when every perturbation (or everything) of one evaluator
        # call failed; the entries of the fixed variables are zero in it all the same
        spec["rmin"] = 0
        k = int(rng.integers(0, 3))
        spec["nan"] = [{"call": k, "r": r, "p": p, "col": 0} for r in range(R) for p in range(-1 if rng.random() < 0.3 else 0, P)]
    if rng.random() < 0.3:
        # variable types: a fixed variable declared INTEGER keeps its (fractional) value like any other fixed variable
        spec["types"] = [int(t) for t in rng.integers(1, 3, size=V)]
        if m == "differential_evolution":
            spec["types"] = [1] * V      # SciPy refuses a free integer variable without an integer between its bounds (these boxes are narrow)
        spec["types"] = [2 if (not mask[v] and rng.random() < 0.6) else spec["types"][v] for v in range(V)]
    return spec


def _check_results(obs, results, mask, ref, tv, name):
    """Delivered results: fixed entries of all reported vectors equal the reference; gradient entries exactly zero."""
    fixed = ~mask
    rt = 1e-12 if tv is not None else 0.0
    for res in results:
        e = res.evaluations
        vecs = [("variables", np.asarray(e.variables)[None, :])]
        if hasattr(e, "perturbed_variables"):
            pv = np.asarray(e.perturbed_variables)
            vecs.append(("perturbed_variables", pv.reshape(-1, pv.shape[-1])))
        for nm, arr in vecs:
            obs.count("result_vectors_checked", int(arr.shape[0]))
            if arr.shape[1] != mask.size:
                obs.violation("reported_vector_without_the_fixed_variables", step=name, field=nm, length=int(arr.shape[1]), variables=int(mask.size), mask=mask)
                return False
            if fixed.any() and not np.all(np.isclose(arr[:, fixed], ref[fixed][None, :], rtol=rt, atol=_roundtrip_atol(tv))):
                obs.violation("fixed_variable_moved_in_result", step=name, field=nm, got=arr[0], reference=ref, mask=mask)
                return False
        g = getattr(res, "gradients", None)
        if g is not None and np.all(res.realizations.failed_realizations):
            obs.count("gradients_with_all_realizations_failed")
        if g is not None:
            for nm in ("weighted_objective", "objectives", "constraints"):
                arr = getattr(g, nm)
                if arr is None:
                    continue
                arr = np.atleast_2d(np.asarray(arr))
                obs.count("gradient_fixed_entries_checked", int(arr[:, fixed].size))
                if not np.all(arr[:, fixed] == 0.0):
                    obs.violation("gradient_of_fixed_variable_not_zero", step=name, field=nm, gradient=arr, mask=mask)
                    return False
    return True


def run_case(case, obs):
    if case["mode"] == "nested":
        return _nested(case, obs)
    from ropt.enums import EventType  # noqa: PLC0415
    from ropt.plan import OptimizerContext, Plan  # noqa: PLC0415

    V, mask, method = case["V"], np.array(case["mask"], dtype=bool), case["method"]
    rng = rng_for(obs.seed, "c09", V, case["mask"], method, case["rep"])
    spec = _gen_spec(rng, V, case["mask"], method, refusable=True)
    if rng.random() < 0.3:
        spec["mask_as_integers"] = True          # flags written as 0/1 integers are the same flags
        obs.count("masks_given_as_integers")
    if spec.get("types") and any(t == 2 and not mask[v] for v, t in enumerate(spec["types"])):
        obs.count("fixed_variable_declared_integer")
    tspec = None
    if rng.random() < 0.35:
        tspec = {"vscale": rng.uniform(0.3, 4.0, size=V).tolist(), "voffset": rng.normal(size=V).tolist() if rng.random() < 0.5 else None}
    case["spec"], case["tspec"] = spec, tspec
    transforms = make_transforms(tspec) if tspec else None
    tv = transforms.variables if transforms else None
    nfree = int(mask.sum())
    ev = ens.RecordingEvaluator(spec)
    mon = Monitor(obs, ev, tv)
    ref_user = np.array(spec["x0"])
    start = None
    if tspec is None and rng.random() < 0.5:
        # the step is started from explicitly passed variables (as later steps of a plan are): those are the starting values
        start = ref_user + rng.uniform(-0.04, 0.04, size=V)
        if spec.get("lb") is not None:
            start = np.clip(start, np.asarray(spec["lb"]) + 1e-6, np.asarray(spec["ub"]) - 1e-6)   # not exactly on a bound: SciPy's DE rejects x0 there by rounding
        ref_user = start.copy()
        obs.count("explicit_start_vector")
    mon.stack.append({"mask": mask, "ref": ref_user, "name": "step"})
    ctx = OptimizerContext(evaluator=mon, plugin_manager=ens.plugin_manager())
    state = {"ok": True}

    def on_results(event):
        if state["ok"]:
            state["ok"] = _check_results(obs, event.data["results"], mask, ref_user, tv, "step")
            # optimizer-domain results as well
            if state["ok"] and "transformed_results" in event.data:
                ref_opt = tv.to_optimizer(ref_user) if tv is not None else ref_user
                state["ok"] = _check_results(obs, event.data["transformed_results"], mask, ref_opt, tv, "step(optimizer domain)")

    ctx.add_observer(EventType.FINISHED_EVALUATION, on_results)
    plan = Plan(ctx)
    step = plan.add_step("optimizer")
    cfgd = ens.make_config_dict(spec)

    def handler(name, orig, args, kw):
        x0 = np.asarray(kw.get("x0"))
        obs.count("algorithm_vectors_checked")
        if tv is None and x0.shape == (nfree,) and not np.array_equal(x0, ref_user[mask]):
            obs.violation("algorithm_start_is_not_the_free_part_of_the_start_vector", x0=x0, start=ref_user, mask=mask)
            return None
        if x0.shape != (nfree,):
            obs.violation("algorithm_sees_fixed_variables", x0_shape=list(x0.shape), nfree=nfree)
            return None
        b = kw.get("bounds")
        if b is not None and (np.asarray(b.lb).shape != (nfree,) or np.asarray(b.ub).shape != (nfree,)):
            obs.violation("algorithm_bounds_include_fixed_variables", shape=list(np.asarray(b.lb).shape), nfree=nfree)
            return None
        if method != "scripted":
            import warnings  # noqa: PLC0415

            fkey = "fun" if "fun" in kw else "func"
            f0 = kw[fkey]

            def fun(x, *a):
                obs.count("algorithm_vectors_checked")
                if x.shape[0] != nfree:
                    obs.violation("algorithm_vector_length", shape=list(x.shape), nfree=nfree)
                return f0(x, *a)

            kw = dict(kw)
            kw[fkey] = fun
            with warnings.catch_warnings():
                warnings.simplefilter("ignore")
                return orig(*args, **kw)
        # scripted: arbitrary requests with free-variable vectors
        fun, jac, cons = kw["fun"], kw.get("jac"), kw.get("constraints") or []
        for _ in range(int(rng.integers(3, 9))):
            xf = x0 + rng.normal(size=nfree) * rng.choice([0.01, 0.3, 2.0])
            what = rng.choice(["f", "g", "c", "j"])
            obs.count("algorithm_vectors_checked")
            dt = str(rng.choice(["f8", "f8", "f4", "i8"]))
            if dt != "f8":
                # an algorithm working in single precision or on an integer grid: the type of its request arrays says nothing
                # about the fixed variables, which keep their values exactly
                xf = np.round(xf).astype(np.int64) if dt == "i8" else xf.astype(np.float32)
                obs.count("requests_in_another_number_type")
            if what == "f":
                fun(xf)
            elif what == "g" and callable(jac):
                g = np.asarray(jac(xf))
                if g.shape != (nfree,):
                    obs.violation("algorithm_gradient_length", shape=list(g.shape), nfree=nfree)
            elif cons:
                c = cons[int(rng.integers(len(cons)))]
                if what == "c":
                    c["fun"](xf)
                else:
                    J = np.asarray(c["jac"](xf))
                    if J.shape[-1] != nfree:
                        obs.violation("algorithm_jacobian_length", shape=list(J.shape), nfree=nfree)
        return None

    if spec.get("ptypes"):
        obs.count("with_relative_perturbations")
    with scipy_hook.active(handler) as hook:
        try:
            if start is not None:
                plan.run_step(step, config=cfgd, transforms=transforms, variables=start)
            else:
                plan.run_step(step, config=cfgd, transforms=transforms)
        except ValueError as exc:
            if not (spec.get("may_be_refused") and "must be finite" in str(exc) and not ev.calls):
                raise
            obs.count("configuration_refused_before_any_evaluation")
            obs.feature("refused")
            return
    if hook.entered < 1:
        obs.count("interceptor_not_entered")
    if (~mask).any() and ev.calls:
        obs.nontrivial(case)
    if tspec is None and V >= 2 and state["ok"] and not spec.get("may_be_refused") and method in ("scripted", "slsqp", "l-bfgs-b") and rng.random() < 0.8:
        # the same step runs again with the same configuration dictionary, in which the user has replaced the mask in the meantime
        # (a loop over blocks of variables with one dictionary): the mask now in the dictionary is the one that counts
        m2 = ~mask if (~mask).any() else (rng.random(V) < 0.5)
        if not m2.any():
            m2[int(rng.integers(V))] = True
        if m2.all():
            m2[int(rng.integers(V))] = False
        cfgd["variables"]["mask"] = m2.tolist()
        start2 = ref_user + rng.uniform(-0.03, 0.03, size=V)
        if spec.get("lb") is not None:
            start2 = np.clip(start2, np.asarray(spec["lb"]) + 1e-6, np.asarray(spec["ub"]) - 1e-6)
        mask, nfree, ref_user = m2, int(m2.sum()), start2.copy()      # (the monitors above read these names when they are called)
        mon.stack[-1] = {"mask": mask, "ref": ref_user, "name": "step (second run, mask replaced in the same dictionary)"}
        obs.count("step_reruns_with_the_mask_replaced_in_the_same_dictionary")
        with scipy_hook.active(handler):
            plan.run_step(step, config=cfgd, transforms=None, variables=start2)
    obs.feature("method." + method)
    obs.feature("transform" if tspec else "no_transform")
    obs.sample({"V": V, "mask": case["mask"], "method": method, "samplers": spec["samplers"], "assignment": spec.get("smap"), "transforms": tspec,
                "evaluator_calls": len(ev.calls)})


def _nested(case, obs):
    """Outer optimization over mask M, inner optimization (run at every outer function evaluation) over the complement."""
    from ropt.enums import EventType  # noqa: PLC0415
    from ropt.plan import OptimizerContext, Plan  # noqa: PLC0415
    from ropt.results import FunctionResults  # noqa: PLC0415

    rng = rng_for(obs.seed, "c09n", case["i"])
    V = int(rng.integers(2, 5))
    mask = rng.random(V) < 0.5
    if mask.all() or not mask.any():
        mask[0], mask[1] = True, False
    spec = _gen_spec(rng, V, mask.tolist(), "slsqp")
    spec["n_con"] = 0
    spec["ensemble"]["q"] = [1.0]
    spec["ensemble"]["a"] = np.asarray(spec["ensemble"]["a"])[:, :1].tolist()
    spec["ensemble"]["b"] = np.asarray(spec["ensemble"]["b"])[:, :1].tolist()
    # a quartic coupling so that truncated inner runs keep moving their variables
    spec["optimizer"] = {"method": "slsqp", "max_iterations": 3, "speculative": bool(rng.random() < 0.4), "split_evaluations": bool(rng.random() < 0.3),
                         "max_functions": int(rng.integers(2, 6))}
    inner = dict(spec)
    inner["mask"] = (~mask).tolist()
    inner["optimizer"] = {"method": str(rng.choice(["slsqp", "l-bfgs-b"])), "max_iterations": 2, "max_functions": int(rng.integers(1, 4)),
                          "speculative": bool(rng.random() < 0.5)}
    case["spec"], case["inner"] = spec, inner
    ev = ens.RecordingEvaluator(spec)
    mon = Monitor(obs, ev)
    ctx = OptimizerContext(evaluator=mon, plugin_manager=ens.plugin_manager())
    outer_ref = np.array(spec["x0"])
    state = {"ok": True, "handoffs": 0}
    inner_plan = Plan(ctx)
    inner_step = inner_plan.add_step("optimizer")
    inner_tracker = inner_plan.add_handler("tracker", sources={inner_step})
    inner_cfg = ens.make_config_dict(inner)
    outer_plan = Plan(ctx)
    outer_step = outer_plan.add_step("optimizer")

    def inner_function(plan, variables):
        if state.get("no_nested_run_expected"):
            obs.violation("nested_plan_run_by_a_step_started_without_it", variables=np.asarray(variables))
            state["ok"] = False
        inner_plan.set(inner_tracker, "results", None)
        start = np.array(variables, dtype=float)
        # the outer's fixed entries in the vector handed to the inner run must be the current reference
        if not np.array_equal(start[~mask], mon.stack[0]["ref"][~mask]):
            obs.violation("nested_start_vector_fixed_entries", got=start, reference=mon.stack[0]["ref"], mask=mask)
            state["ok"] = False
        mon.stack.append({"mask": ~mask, "ref": start, "name": "inner"})
        try:
            plan.run_step(inner_step, config=inner_cfg, variables=variables)
        finally:
            mon.stack.pop()
        res = inner_plan.get(inner_tracker, "results")
        if isinstance(res, FunctionResults):
            delivered = np.asarray(res.evaluations.variables)
            # hand-off: the outer's masked-out variables now carry what the inner optimization delivered
            mon.stack[0]["ref"] = mon.stack[0]["ref"].copy()
            mon.stack[0]["ref"][~mask] = delivered[~mask]
            mon.stack[0]["handoffs"] = True
            state["handoffs"] += 1
            obs.count("nested_handoffs")
        return res

    inner_plan.add_function(inner_function)

    def on_results(event):
        if not state["ok"]:
            return
        if event.source == outer_step:
            state["ok"] = _check_results(obs, event.data["results"], mask, mon.stack[0]["ref"], None, "outer")
        elif event.source == inner_step and len(mon.stack) > 1:
            state["ok"] = _check_results(obs, event.data["results"], ~mask, mon.stack[-1]["ref"], None, "inner")

    ctx.add_observer(EventType.FINISHED_EVALUATION, on_results)
    mon.stack.append({"mask": mask, "ref": outer_ref, "name": "outer"})
    outer_plan.run_step(outer_step, config=ens.make_config_dict(spec), nested_optimization=inner_plan)
    # the same step object run again, now without a nested plan: nobody owns the masked-out variables any more, they keep
    # the values this run starts from
    start2 = np.array(spec["x0"]) + rng.uniform(-0.03, 0.03, size=V)
    if spec.get("lb") is not None:
        start2 = np.clip(start2, np.asarray(spec["lb"]) + 1e-6, np.asarray(spec["ub"]) - 1e-6)
    mon.stack[:] = [{"mask": mask, "ref": start2.copy(), "name": "outer, second run without nested plan"}]
    calls_before = len(ev.calls)
    state["no_nested_run_expected"] = True
    outer_plan.run_step(outer_step, config=ens.make_config_dict(spec), variables=start2)
    obs.count("step_reruns_without_the_nested_plan")
    obs.count("rows_of_reruns_without_the_nested_plan", sum(int(c.variables.shape[0]) for c in ev.calls[calls_before:]))
    if state["handoffs"]:
        obs.nontrivial("nested", case["i"])
    obs.feature("nested.speculative" if spec["optimizer"]["speculative"] else "nested.non_speculative")
    obs.sample({"nested": True, "V": V, "outer_mask": mask, "outer": spec["optimizer"], "inner": inner["optimizer"], "handoffs": state["handoffs"]})
