"""C17 - samplers obey the perturbation-sample contract, including QMC point integrity.

Boundary: SciPySampler objects created by the real plug-in from real configurations
(generate_samples), the points handed out by SciPy's QMC engines (QMCEngine.random is
wrapped in the harness process: unambiguous history), and end to end
perturbed_variables - variables."""
from __future__ import annotations

import numpy as np

from vlib import ens
from vlib.build import rng_for

PROPERTY = "C17"
LEVEL = "exploration"
TECHNIQUE = "runtime monitoring: real sampler objects over methods x shapes x masks x assignments x shared x seeds x repeated calls; QMC points recorded at SciPy's engine boundary and matched one-to-one with the returned perturbation vectors; LHS strata counted"
LEVEL_TEXT = ("2e3 (quick) / 5e4 (thorough) sampler configurations, 3 consecutive calls each; shape, exact zeros for unhandled variables, shared/non-shared, [-1,1] range, "
              "one-to-one correspondence of perturbation vectors with engine points, Latin-hypercube stratification; bounded sampling")
LEVEL_NOTE = "trusted: SciPy's engines (points are taken as given), the matching in this file"
ANCHOR_FILES = ["src/ropt/plugins/sampler/scipy.py", "src/ropt/plugins/sampler/base.py", "src/ropt/ensemble_evaluator/_ensemble_evaluator.py"]
EXECUTION_COUNTERS = ["calls_checked"]   # executions of the oracle inside the cases (reported as coverage.evaluations)
RULE = ("case = one sampler configuration (method, R, P, V, mask, assignment, shared, seed) called 3 times; non-trivial if the sampler handles at least one variable; "
        "QMC cases additionally need V_handled>1 and R*P>1 to be able to expose scrambling (counted separately); distinct key = case index")
ASSUMPTIONS = ["callers do not write into the array returned by generate_samples (ropt's own caller stopped doing so with /repo commit 08fcbdd)",
               "non-shared realizations 'differ' is only required when R>=2 and at least one handled variable (probability of an accidental tie is negligible for continuous draws)"]
REQUIRED = {"quick": {"calls_checked": 3600, "qmc_vectors_matched": 8000, "qmc_multidim_cases": 296, "lhs_strata_checked": 300, "shared_checked": 600, "unhandled_zero_entries": 5000, "e2e_checked": 120, "calls_with_zero_weight_realizations": 200, "calls_with_merged_gradient_estimation": 800, "e2e_with_zero_weight_realizations": 12, "e2e_with_an_unassigned_variable": 20, "e2e_three_samplers": 12, "calls_with_more_than_a_thousand_points": 20, "e2e_identically_configured_samplers": 15, "samplers_with_explicit_options": 60, "__nontrivial__": 1142},
            "thorough": {"calls_checked": 90000, "qmc_vectors_matched": 200000, "qmc_multidim_cases": 7227, "lhs_strata_checked": 8000, "shared_checked": 15000, "unhandled_zero_entries": 120000, "e2e_checked": 2400, "calls_with_zero_weight_realizations": 8000, "calls_with_merged_gradient_estimation": 20000, "e2e_with_zero_weight_realizations": 200, "e2e_with_an_unassigned_variable": 400, "e2e_three_samplers": 250, "calls_with_more_than_a_thousand_points": 500, "e2e_identically_configured_samplers": 300, "samplers_with_explicit_options": 1500, "__nontrivial__": 27891}}
N = {"quick": 2000, "thorough": 50000}
METHODS = ["norm", "uniform", "truncnorm", "sobol", "halton", "lhs", "default"]
BOUNDED = {"uniform", "truncnorm", "sobol", "halton", "lhs"}
QMC = {"sobol", "halton", "lhs"}

_REC = {"on": False, "log": []}


def worker_setup(obs):
    from scipy.stats import qmc  # noqa: PLC0415

    orig = qmc.QMCEngine.random

    def random(self, n=1, **kw):
        out = orig(self, n, **kw)
        if _REC["on"]:
            _REC["log"].append((id(self), np.array(out, copy=True)))
        return out

    qmc.QMCEngine.random = random


def cases(tier, seed):
    for i in range(N[tier]):
        yield {"i": i}
    for i in range(200 if tier == "quick" else 4000):
        yield {"i": i, "e2e": True}


def run_case(case, obs):
    if case.get("e2e"):
        return _e2e(case, obs)
    rng = rng_for(obs.seed, "c17", case["i"])
    method = METHODS[int(rng.integers(len(METHODS)))]
    R, P, V = int(rng.integers(1, 7)), int(rng.integers(1, 9)), int(rng.integers(1, 7))
    shared = bool(rng.random() < 0.4)
    if case["i"] % 50 == 7:
        # a large ensemble: more than a thousand points in one call (one design / one stretch of the sequence all the same)
        R, P, V = int(rng.integers(20, 41)), int(rng.integers(52, 65)), int(rng.integers(1, 4))
        method = ["lhs", "sobol", "halton"][int(rng.integers(3))]
        shared = False
        obs.count("calls_with_more_than_a_thousand_points")
    mask = None
    if rng.random() < 0.5:
        mask = (rng.random(V) < 0.6).tolist()
    nsamp = int(rng.choice([1, 2, 3], p=[0.6, 0.3, 0.1]))
    spec = {"V": V, "R": R, "P": P, "rweights": [1.0] * R, "oweights": [1.0], "n_con": 0, "x0": [0.0] * V, "mask": mask,
            "seed": int(rng.integers(0, 10**6)), "ensemble": {"kind": "hash"}, "nan": []}
    samplers = [{"method": method if k == 0 else str(rng.choice(METHODS[:6])), "shared": shared if k == 0 else bool(rng.random() < 0.4)} for k in range(nsamp)]
    samplers[0]["method"] = ("scipy/" + method) if method == "default" or rng.random() < 0.3 else method
    # explicit distribution options on some samplers (they must not leak into other samplers, now or later)
    opt_range = None
    for k, sm in enumerate(samplers):
        base = sm["method"].split("/")[-1]
        if base in ("uniform", "truncnorm") and rng.random() < 0.3:
            if base == "uniform":
                # ranges disjoint from the default [-1, 1]: ignoring the options, or leaking them into a default sampler, leaves the range
                loc, sc = float(np.round(rng.choice([-1.0, 1.0]) * rng.uniform(1.5, 4), 2)), float(np.round(rng.uniform(0.5, 3), 2))
                if loc < 0:
                    loc = loc - sc
                sm["options"] = {"loc": loc, "scale": sc}
                rngk = (loc, loc + sc)
            else:
                a = float(np.round(rng.uniform(1.5, 2.5), 2))
                b = float(np.round(a + rng.uniform(0.5, 2), 2))
                sm["options"] = {"a": a, "b": b}
                rngk = (a, b)
            if k == 0:
                opt_range = rngk
            obs.count("samplers_with_explicit_options")
    if R >= 2 and rng.random() < 0.3:
        # the weights of the realizations are not the sampler's business: a realization with a configured weight of zero
        # (a realization filter may still select it) gets its perturbations like every other one
        w = rng.integers(1, 5, size=R).astype(float)
        zero = rng.random(R) < 0.4
        zero[int(rng.integers(R))] = False
        spec["rweights"] = np.where(zero, 0.0, w).tolist()
        if zero.any():
            obs.count("calls_with_zero_weight_realizations", 3)
    if rng.random() < 0.3:
        # how the gradient is estimated from the perturbations afterwards (one merged system or one per realization) is not
        # the sampler's business either
        spec["merge"] = True
        obs.count("calls_with_merged_gradient_estimation", 3)
    spec["samplers"] = samplers
    smap = None
    if nsamp > 1 or rng.random() < 0.2:
        smap = [int(t) for t in rng.integers(0, nsamp, size=V)]
        spec["smap"] = smap
    case["spec"] = spec
    cfg = ens.make_config(spec)
    pm = ens.plugin_manager()
    handled = np.ones(V, dtype=bool)
    if mask is not None:
        handled &= np.array(mask)
    if smap is not None:
        handled &= np.array(smap) == 0
    arg_mask = None if (mask is None and smap is None) else handled
    gen = np.random.default_rng(spec["seed"])
    _REC["log"].clear()
    _REC["on"] = True
    try:
        sampler = pm.get_plugin("sampler", samplers[0]["method"]).create(cfg, 0, arg_mask, gen)
        outs = []
        for _ in range(3):
            ret = sampler.generate_samples()
            outs.append(np.array(ret, copy=True))
            # (until /repo commit 08fcbdd ropt's only caller added the other samplers' output into the returned array, and the
            # harness emulated that by overwriting it; ropt no longer writes into it, so neither does the harness: a sampler
            # that hands out the same block twice is not a violation of C17)
    finally:
        _REC["on"] = False
    log = list(_REC["log"])
    m = method if method != "default" else "norm"
    nh = int(handled.sum())
    if nh:
        obs.nontrivial(case["i"])
    obs.feature("method." + m)
    obs.feature("shared" if shared else "per_realization")
    if nh == 0:
        obs.feature("handles_no_variable")
    allpts = np.vstack([p for _, p in log]) if log else np.zeros((0, max(nh, 1)))
    if m in QMC and nh > 1 and R * P > 1:
        obs.count("qmc_multidim_cases")
    used = np.zeros(len(allpts), dtype=int)
    for k, out in enumerate(outs):
        obs.count("calls_checked")
        if out.shape != (R, P, V):
            obs.violation("shape", got=list(out.shape), want=[R, P, V], method=m)
            return
        un = out[..., ~handled]
        obs.count("unhandled_zero_entries", int(un.size))
        if un.size and not np.all(un == 0.0):
            obs.violation("unhandled_variable_nonzero", method=m, handled=handled, sample=out[0, 0])
            return
        if nh == 0:
            continue
        h = out[..., handled]
        if shared:
            obs.count("shared_checked")
            if not all(np.array_equal(h[0], h[r]) for r in range(R)):
                obs.violation("shared_realizations_differ", method=m, call=k)
                return
        elif R >= 2:
            obs.count("nonshared_checked")
            if any(np.array_equal(h[q], h[r]) for q in range(R) for r in range(q + 1, R)):
                obs.violation("nonshared_realizations_identical", method=m, call=k, R=R, P=P, realization_weights=spec["rweights"])
                return
            if any(not np.any(h[r]) for r in range(R)):
                obs.violation("realization_without_perturbations", method=m, call=k, R=R, P=P, realization_weights=spec["rweights"])
                return
        lo_hi = opt_range if opt_range is not None else (-1.0, 1.0)
        if m in BOUNDED and (h.min() < lo_hi[0] or h.max() > lo_hi[1]):
            obs.violation("out_of_range", method=m, min=float(h.min()), max=float(h.max()), expected_range=lo_hi, explicit_options=samplers[0].get("options"))
            return
        if m in QMC:
            # each perturbation vector is the [-1,1] image of exactly one engine point, each point used once (R times if shared)
            vecs = (h[0] if shared else h.reshape(-1, nh))
            for vec in vecs:
                obs.count("qmc_vectors_matched")
                pt = (vec + 1.0) / 2.0
                d = np.max(np.abs(allpts - pt[None, :]), axis=1) if len(allpts) else np.array([])
                hit = np.flatnonzero(d <= 1e-12)
                hit = [i for i in hit if used[i] == 0]
                if not hit:
                    obs.violation("qmc_vector_is_not_an_engine_point", method=m, vector=vec, R=R, P=P, handled=nh, shared=shared,
                                  first_points=allpts[:4])
                    return
                used[hit[0]] = 1
            if m == "lhs":
                n = len(vecs)
                obs.count("lhs_strata_checked")
                for j in range(nh):
                    strata = np.floor((vecs[:, j] + 1.0) / 2.0 * n).astype(int)
                    strata = np.clip(strata, 0, n - 1)
                    if len(set(strata.tolist())) != n:
                        obs.violation("lhs_stratification", variable=j, strata=strata, n=n, R=R, P=P, shared=shared)
                        return
    if m in QMC and nh and len(allpts) and not np.all(used == 1):
        obs.violation("engine_points_unused_or_reused", used=used.tolist(), method=m)
    obs.sample({"method": m, "R": R, "P": P, "V": V, "mask": mask, "assignment": smap, "shared": shared, "handled": handled, "engine_points": len(allpts)})


def _e2e(case, obs):
    """perturbed_variables - variables = magnitude * samples of the real samplers (zero on fixed / re-assigned variables)."""
    from ropt.ensemble_evaluator import EnsembleEvaluator  # noqa: PLC0415

    rng = rng_for(obs.seed, "c17e", case["i"])
    R, P, V = int(rng.integers(1, 5)), int(rng.integers(1, 6)), int(rng.integers(2, 6))
    method = METHODS[int(rng.integers(6))]
    mask = (rng.random(V) < 0.7).tolist() if rng.random() < 0.6 else None
    if mask is not None and not any(mask):
        mask[0] = True
    spec = {"V": V, "R": R, "P": P, "rweights": [1.0] * R, "oweights": [1.0], "n_con": 0, "x0": rng.normal(size=V).tolist(), "mask": mask,
            "seed": int(rng.integers(0, 10**6)), "ensemble": {"kind": "hash"}, "nan": [], "magnitudes": [0.25], "btypes": [1],
            "samplers": [{"method": method, "shared": bool(rng.random() < 0.4)}]}
    two = rng.random() < 0.5
    if two:
        spec["samplers"].append({"method": METHODS[int(rng.integers(6))], "shared": bool(rng.random() < 0.4)})
        if rng.random() < 0.35:
            # two entries configured identically are still two samplers, each with its own variables
            spec["samplers"][1] = dict(spec["samplers"][0])
            obs.count("e2e_identically_configured_samplers")
        spec["smap"] = [int(t) for t in rng.integers(0, 2, size=V)]
        if V >= 3 and rng.random() < 0.35:
            # three samplers in use
            spec["samplers"].append({"method": METHODS[int(rng.integers(6))], "shared": bool(rng.random() < 0.4)})
            sm = rng.integers(0, 3, size=V)
            sm[rng.permutation(V)[:3]] = [0, 1, 2]
            spec["smap"] = [int(t) for t in sm]
            obs.count("e2e_three_samplers")
        if rng.random() < 0.4:
            # a variable assigned to no sampler (-1) is not perturbed; where that entry stands in the assignment does not matter
            spec["smap"][int(rng.integers(V))] = -1
            obs.count("e2e_with_an_unassigned_variable")
    if R >= 2 and rng.random() < 0.3:
        zero = rng.random(R) < 0.4
        zero[int(rng.integers(R))] = False
        spec["rweights"] = np.where(zero, 0.0, rng.integers(1, 5, size=R).astype(float)).tolist()
        if zero.any():
            obs.count("e2e_with_zero_weight_realizations")
    case["spec"] = spec
    cfg = ens.make_config(spec)
    ev = ens.RecordingEvaluator(spec)
    _REC["log"].clear()
    _REC["on"] = True
    try:
        ee = EnsembleEvaluator(cfg, None, ev, ens.plugin_manager())
        for _ in range(int(rng.integers(1, 4))):
            _, gres = ee.calculate(np.array(spec["x0"]), compute_functions=True, compute_gradients=True)
    finally:
        _REC["on"] = False
    if two:
        d = (np.asarray(gres.evaluations.perturbed_variables) - np.asarray(gres.evaluations.variables)) / 0.25
        handled = (np.ones(V, dtype=bool) if mask is None else np.array(mask)) & (np.array(spec["smap"]) >= 0)
        obs.count("e2e_checked")
        obs.count("e2e_two_samplers")
        obs.nontrivial("e2e", case["i"])
        if not np.all(d[..., ~handled] == 0.0):
            obs.violation("e2e_fixed_variable_perturbed", mask=mask, delta=d[0, 0])
            return
        for k, sm in enumerate(spec["samplers"]):
            cols = handled & (np.array(spec["smap"]) == k)
            if cols.any() and R * P > 0 and sm["method"] not in ("default",) and not np.any(d[..., cols] != 0.0):
                obs.violation("e2e_variables_of_a_sampler_not_perturbed", method=sm["method"], sampler=k, assignment=spec["smap"], mask=mask)
                return
            if sm["method"] in BOUNDED and cols.any() and np.max(np.abs(d[..., cols])) > 1.0 + 1e-9:
                obs.violation("e2e_out_of_range", method=sm["method"], sampler=k, max=float(np.max(np.abs(d[..., cols]))))
                return
            if sm["shared"] and cols.any() and not all(np.array_equal(d[0][:, cols], d[r][:, cols]) for r in range(R)):
                obs.violation("e2e_shared_realizations_differ", sampler=k)
                return
        return
    d = (np.asarray(gres.evaluations.perturbed_variables) - np.asarray(gres.evaluations.variables)) / 0.25
    obs.count("e2e_checked")
    obs.nontrivial("e2e", case["i"])
    handled = np.ones(V, dtype=bool) if mask is None else np.array(mask)
    if not np.all(d[..., ~handled] == 0.0):
        obs.violation("e2e_fixed_variable_perturbed", mask=mask, delta=d[0, 0])
        return
    if method in BOUNDED and np.max(np.abs(d)) > 1.0 + 1e-9:
        obs.violation("e2e_out_of_range", method=method, max=float(np.max(np.abs(d))))
    if handled.any() and any(not np.any(d[r][:, handled]) for r in range(R)):
        obs.violation("e2e_realization_without_perturbations", method=method, realization_weights=spec["rweights"], shared=spec["samplers"][0]["shared"])
        return
    if method in QMC:
        allpts = np.vstack([p for _, p in _REC["log"]])
        h = d[..., handled]
        vecs = h[0] if spec["samplers"][0]["shared"] else h.reshape(-1, int(handled.sum()))
        for vec in vecs:
            pt = (vec + 1.0) / 2.0
            if not np.any(np.max(np.abs(allpts - pt[None, :]), axis=1) <= 1e-9):
                obs.violation("e2e_qmc_vector_is_not_an_engine_point", method=method, vector=vec, R=R, P=P)
                return
