"""C11 - scaling transforms change optimizer coordinates only, not user-domain behaviour.

Paired executions of the same user-domain configuration and point with and without
transforms: evaluator requests (user domain) and user-domain results must agree; bound /
linear-constraint feasibility must be the same in both domains; to/from is the identity."""
from __future__ import annotations

import numpy as np

from vlib import ens
from vlib.build import rng_for
from vlib.transforms import make_transforms

PROPERTY = "C11"
LEVEL = "exploration"
TECHNIQUE = "runtime monitoring with metamorphic pairs: identical user-domain configuration/point executed with and without variable/objective/constraint scalers through the real evaluator and evaluator steps; evaluator rows and user-domain results compared field by field; feasibility equivalence on test points"
LEVEL_TEXT = ("5e2 (quick) / 1e4 (thorough) generated pairs (positive scales and offsets, bounds, linear constraints of every bound kind, absolute and relative perturbations, boundary types, "
              "mean/stddev, filters) x {function evaluation through an evaluator step, function+gradient evaluation}; relative tolerance 1e-9")
LEVEL_NOTE = "trusted: comparison code in this file; weighted objective and gradients are outside the statement and not compared; real algorithms are not used (they legitimately take other paths in scaled coordinates)"
ANCHOR_FILES = ["src/ropt/transforms/variable_scaler.py", "src/ropt/config/enopt/_variables_config.py", "src/ropt/config/enopt/_linear_constraints_config.py",
                "src/ropt/config/enopt/_gradient_config.py", "src/ropt/config/enopt/_nonlinear_constraints_config.py", "src/ropt/ensemble_evaluator/_evaluator_results.py",
                "src/ropt/results/_constraint_info.py", "src/ropt/results/_function_evaluations.py", "src/ropt/results/_functions.py"]
RULE = ("case = one user-domain configuration + point + transform set; non-trivial if at least one scale differs from 1 or an offset from 0 and both runs produced results; "
        "distinct key = case index; monitor_counters: fields and evaluator rows compared")
ASSUMPTIONS = ["scales are positive", "same seed and sampler give the same samples in both runs"]
REQUIRED = {"quick": {"pairs": 600, "with_variables_declared_integer": 100, "with_variable_scales_given_as_integers": 45, "with_a_variable_scale_of_1e-8_or_less": 50, "with_function_scales_of_another_order_of_magnitude.and_stddev_estimator": 20, "evaluator_rows_compared": 4000, "result_fields_compared": 6356, "constraint_info_fields_compared": 3000, "relative_perturbation_pairs": 100, "initial_values_outside_bounds_cases": 120, "transforms_object_used_for_another_configuration_before": 150, "feasibility_points": 4800, "roundtrips": 600, "__nontrivial__": 600},
            "thorough": {"pairs": 12000, "with_variables_declared_integer": 2400, "with_variable_scales_given_as_integers": 1000, "with_a_variable_scale_of_1e-8_or_less": 1000, "with_function_scales_of_another_order_of_magnitude.and_stddev_estimator": 400, "evaluator_rows_compared": 80000, "result_fields_compared": 127326, "constraint_info_fields_compared": 60000, "relative_perturbation_pairs": 2000, "initial_values_outside_bounds_cases": 2500, "transforms_object_used_for_another_configuration_before": 3000, "feasibility_points": 96000, "roundtrips": 12000, "__nontrivial__": 12000}}
N = {"quick": 1000, "thorough": 20000}
RT = 1e-9


def cases(tier, seed):
    for i in range(N[tier]):
        yield {"i": i}


def _close(a, b):
    a, b = np.asarray(a, dtype=float), np.asarray(b, dtype=float)
    return a.shape == b.shape and bool(np.all(np.isclose(a, b, rtol=RT, atol=1e-12, equal_nan=True) | (a == b)))


def _cmp(obs, name, a, b, counter="result_fields_compared"):
    if a is None and b is None:
        return True
    obs.count(counter)
    if (a is None) != (b is None) or not _close(a, b):
        obs.violation("user_domain_differs_with_transforms", field=name, without=a, with_transforms=b)
        return False
    return True


def run_case(case, obs):
    from ropt.ensemble_evaluator import EnsembleEvaluator  # noqa: PLC0415
    from ropt.enums import EventType  # noqa: PLC0415
    from ropt.exceptions import OptimizationAborted  # noqa: PLC0415
    from ropt.plan import OptimizerContext, Plan  # noqa: PLC0415

    rng = rng_for(obs.seed, "c11", case["i"])
    V, R, P = int(rng.integers(1, 5)), int(rng.integers(1, 4)), int(rng.integers(1, 5))
    n_obj, n_con, n_lin = int(rng.integers(1, 3)), int(rng.integers(0, 3)), int(rng.integers(0, 3))
    F = n_obj + n_con
    lb = np.where(rng.random(V) < 0.25, -np.inf, rng.uniform(-3, -0.5, size=V))
    ub = np.where(rng.random(V) < 0.25, np.inf, rng.uniform(0.5, 3, size=V))
    x = np.array([rng.uniform(max(l, -2), min(u, 2)) for l, u in zip(lb, ub)])
    if rng.random() < 0.25:
        # initial values outside the bounds are valid input (the violation is reported, nothing is repaired)
        for k in range(V):
            if rng.random() < 0.5 and np.isfinite(ub[k]):
                x[k] = ub[k] + rng.uniform(0.1, 2.0)
            elif rng.random() < 0.5 and np.isfinite(lb[k]):
                x[k] = lb[k] - rng.uniform(0.1, 2.0)
        obs.count("initial_values_outside_bounds_cases")
    finite = np.isfinite(lb) & np.isfinite(ub)
    ptypes = np.where(finite & (rng.random(V) < 0.5), 2, 1)
    mags = np.where(ptypes == 2, rng.uniform(0.01, 0.3, size=V), 10 ** rng.uniform(-3, -0.3, size=V))
    spec = {"V": V, "R": R, "P": P, "rweights": ens.gen_weights(rng, R, zeros=False), "oweights": ens.gen_oweights(rng, n_obj, negative=False), "n_con": n_con,
            "x0": x.tolist(), "lb": lb.tolist(), "ub": ub.tolist(), "magnitudes": mags.tolist(), "ptypes": [int(t) for t in ptypes],
            "btypes": [int(t) for t in rng.integers(1, 4, size=V)], "seed": int(rng.integers(1, 10**6)),
            "samplers": [{"method": str(rng.choice(["norm", "uniform", "sobol", "lhs"])), "shared": bool(rng.random() < 0.3)}],
            "ensemble": {"kind": "quad", "a": rng.normal(size=(R, F, V)).tolist(), "b": rng.normal(size=(R, F)).tolist(), "q": rng.uniform(-1, 1, size=F).tolist(),
                         "c": rng.normal(size=(R, V)).tolist()}, "nan": [], "rmin": 1}
    if n_con:
        clo = np.where(rng.random(n_con) < 0.4, -np.inf, rng.normal(size=n_con))
        spec["con_lb"], spec["con_ub"] = clo.tolist(), (np.where(np.isfinite(clo), clo, 0.0) + rng.uniform(0, 2, size=n_con) * (rng.random(n_con) < 0.8)).tolist()
    A = None
    if n_lin:
        A = np.round(rng.normal(size=(n_lin, V)), 2)
        A[np.all(A == 0, axis=1)] = 1.0
        kinds = rng.choice(["two", "lower", "upper", "eq"], size=n_lin)
        ll, lu = [], []
        for k in kinds:
            a0 = float(rng.normal()); w = float(abs(rng.normal()) + 0.2)
            l, u = {"two": (a0, a0 + w), "lower": (a0, np.inf), "upper": (-np.inf, a0), "eq": (a0, a0)}[str(k)]
            ll.append(l); lu.append(u)
        spec["linear"] = {"coefficients": A.tolist(), "lower_bounds": ll, "upper_bounds": lu}
    if rng.random() < 0.3:
        spec["estimators"], spec["omap_est"] = ["mean", "stddev"], rng.integers(0, 2, size=n_obj).tolist()
        if R < 2:
            spec["omap_est"] = [0] * n_obj
    if rng.random() < 0.25:
        spec["filters"] = [{"method": "cvar-objective", "options": {"sort": [0], "percentile": 0.5}}]
        spec["omap_f"] = [0] + [-1] * (n_obj - 1)
    if rng.random() < 0.2 and rng.random() < 0.5:
        for r in range(R):
            if rng.random() < 0.3:
                spec["nan"].append({"call": None, "r": r, "p": int(rng.integers(-1, P)), "col": int(rng.integers(F))})
    if rng.random() < 0.25:
        # variables declared integer (or real) by the user: a label for the back-ends that can use it, the coordinates are
        # transformed like those of every other variable
        spec["types"] = [int(t) for t in rng.integers(1, 3, size=V)]
        if 2 in spec["types"]:
            obs.count("with_variables_declared_integer")
    tspec = {"vscale": np.round(10 ** rng.uniform(-1, 1, size=V), 3).tolist() if rng.random() < 0.85 else None,
             "voffset": np.round(rng.normal(size=V), 3).tolist() if rng.random() < 0.6 else None,
             "oscale": np.round(10 ** rng.uniform(-1, 1, size=n_obj), 3).tolist() if rng.random() < 0.6 else None,
             "cscale": np.round(10 ** rng.uniform(-1, 1, size=n_con), 3).tolist() if n_con and rng.random() < 0.6 else None}
    if rng.random() < 0.15:
        # function scales of another order of magnitude altogether (objectives in units of 1e-9 or 1e12 for the optimizer)
        tspec["oscale"] = (10.0 ** rng.choice([-9, -6, 6, 9, 12], size=n_obj)).tolist()
        if n_con:
            tspec["cscale"] = (10.0 ** rng.choice([-9, -6, 6, 9, 12], size=n_con)).tolist()
        obs.count("with_function_scales_of_another_order_of_magnitude")
        if spec.get("estimators"):
            obs.count("with_function_scales_of_another_order_of_magnitude.and_stddev_estimator")
    if tspec["vscale"] is not None and rng.random() < 0.12:
        # a variable kept in small units (a scale of 1e-9 or 1e-12 is a scale)
        tspec["vscale"] = list(tspec["vscale"])
        tspec["vscale"][int(rng.integers(V))] = float(rng.choice([1e-9, 1e-12, 2e-8]))
        obs.count("with_a_variable_scale_of_1e-8_or_less")
    elif rng.random() < 0.12:
        # scales written as whole numbers (an integer array): numbers all the same
        tspec["vscale"] = [int(t) for t in rng.integers(1, 12, size=V)]
        tspec["vscale_integer_array"] = True
        obs.count("with_variable_scales_given_as_integers")
    if all(v is None for v in tspec.values()):
        tspec["vscale"] = [2.0] * V
    case["spec"], case["tspec"] = spec, tspec
    if np.any(ptypes == 2) and tspec["vscale"] is not None:
        obs.count("relative_perturbation_pairs")
    pm = ens.plugin_manager()
    T = make_transforms(tspec)
    tv = T.variables
    cfg0 = ens.make_config(spec)
    if spec.get("linear") and tv is not None and rng.random() < 0.5:
        # the transforms object has served another configuration before (other linear constraints, same number of rows)
        decoy = dict(spec)
        A0 = np.asarray(spec["linear"]["coefficients"])
        decoy["linear"] = dict(spec["linear"], coefficients=(A0 * rng.uniform(2.0, 30.0, size=(A0.shape[0], 1)) + rng.normal(size=A0.shape)).tolist())
        ens.make_config(decoy, T)
        obs.count("transforms_object_used_for_another_configuration_before")
    cfg1 = ens.make_config(spec, T)
    # ---- identity of the round trip and of the transformed configuration
    obs.count("roundtrips")
    if tv is not None:
        xo = tv.to_optimizer(x)
        if not _close(tv.from_optimizer(xo), x):
            obs.violation("roundtrip_not_identity", x=x, back=tv.from_optimizer(xo))
            return
        if not _close(cfg1.variables.initial_values, xo) or not _close(tv.from_optimizer(np.asarray(cfg1.variables.lower_bounds)), lb) \
                or not _close(tv.from_optimizer(np.asarray(cfg1.variables.upper_bounds)), ub):
            obs.violation("transformed_configuration_variables", initial=cfg1.variables.initial_values, lower=cfg1.variables.lower_bounds)
            return
    else:
        xo = x
    # ---- feasibility equivalence of bounds and linear constraints on test points
    for _ in range(8):
        pu = x + rng.normal(size=V) * rng.choice([0.1, 1.0, 3.0])
        po = tv.to_optimizer(pu) if tv is not None else pu
        margin = np.inf
        fu = True
        for d in (pu - lb, ub - pu):
            dd = d[np.isfinite(d)]
            if dd.size:
                margin = min(margin, float(np.min(np.abs(dd))))
                fu &= bool(np.all(dd >= 0))
        fo = bool(np.all(po >= cfg1.variables.lower_bounds) and np.all(po <= cfg1.variables.upper_bounds))
        if n_lin:
            vu = A @ pu
            lc = cfg1.linear_constraints
            vo = np.asarray(lc.coefficients) @ po
            for i in range(n_lin):
                l, u = spec["linear"]["lower_bounds"][i], spec["linear"]["upper_bounds"][i]
                sc = 1.0 + abs(vu[i])
                if abs(l - u) < 1e-15:
                    continue            # equalities: a random point violates them in both domains
                for bnd, sgn in ((l, 1), (u, -1)):
                    if np.isfinite(bnd):
                        margin = min(margin, abs(vu[i] - bnd) / sc)
                        fu &= sgn * (vu[i] - bnd) >= 0
                lo, uo = lc.lower_bounds[i], lc.upper_bounds[i]
                fo &= bool(vo[i] >= lo and vo[i] <= uo)
        if margin < 1e-7:
            continue
        obs.count("feasibility_points")
        if fu != fo:
            obs.violation("feasibility_differs_between_domains", point=pu, user_feasible=fu, optimizer_feasible=fo)
            return
    # ---- paired function+gradient evaluation through the ensemble evaluator
    runs = []
    for cfg, tr, xin in ((cfg0, None, x), (cfg1, T, xo)):
        ev = ens.RecordingEvaluator(spec)
        ee = EnsembleEvaluator(cfg, tr, ev, pm)
        try:
            fres, gres = ee.calculate(np.asarray(xin, dtype=float), compute_functions=True, compute_gradients=True)
        except OptimizationAborted:
            runs.append(None)
            continue
        if tr is not None:
            fres, gres = fres.transform_from_optimizer(tr), gres.transform_from_optimizer(tr)
        runs.append((ev, fres, gres))
    obs.count("pairs")
    if runs[0] is None or runs[1] is None:
        obs.check(runs[0] is None and runs[1] is None, "abort_only_in_one_domain")
        return
    (ev0, f0, g0), (ev1, f1, g1) = runs
    if len(ev0.calls) != len(ev1.calls):
        obs.violation("different_number_of_evaluator_calls", without=len(ev0.calls), with_transforms=len(ev1.calls))
        return
    for c0, c1 in zip(ev0.calls, ev1.calls):
        obs.count("evaluator_rows_compared", int(c0.variables.shape[0]))
        if not _close(c0.variables, c1.variables):
            bad = int(np.argwhere(~np.isclose(c0.variables, c1.variables, rtol=RT, atol=1e-12))[0][0])
            obs.violation("evaluator_receives_different_user_domain_variables", row=bad, perturbation=None if c0.perturbations is None else int(c0.perturbations[bad]),
                          without=c0.variables[bad], with_transforms=c1.variables[bad], ptypes=ptypes, vscale=tspec["vscale"])
            return
        if not (np.array_equal(c0.realizations, c1.realizations) and (c0.perturbations is None) == (c1.perturbations is None)):
            obs.violation("evaluator_labels_differ")
            return
    ok = True
    ok &= _cmp(obs, "evaluations.variables", f0.evaluations.variables, f1.evaluations.variables)
    ok &= _cmp(obs, "evaluations.objectives", f0.evaluations.objectives, f1.evaluations.objectives)
    ok &= _cmp(obs, "evaluations.constraints", f0.evaluations.constraints, f1.evaluations.constraints)
    ok &= _cmp(obs, "gradient.evaluations.perturbed_variables", g0.evaluations.perturbed_variables, g1.evaluations.perturbed_variables)
    ok &= _cmp(obs, "gradient.evaluations.perturbed_objectives", g0.evaluations.perturbed_objectives, g1.evaluations.perturbed_objectives)
    ok &= _cmp(obs, "gradient.evaluations.perturbed_constraints", g0.evaluations.perturbed_constraints, g1.evaluations.perturbed_constraints)
    if (f0.functions is None) != (f1.functions is None):
        obs.violation("functions_present_in_one_domain_only")
        return
    if f0.functions is not None:
        ok &= _cmp(obs, "functions.objectives", f0.functions.objectives, f1.functions.objectives)
        ok &= _cmp(obs, "functions.constraints", f0.functions.constraints, f1.functions.constraints)
    i0, i1 = f0.constraint_info, f1.constraint_info
    if (i0 is None) != (i1 is None):
        obs.violation("constraint_info_present_in_one_domain_only")
        return
    if i0 is not None:
        for name in ("bound_lower", "bound_upper", "bound_violation", "linear_lower", "linear_upper", "linear_violation",
                     "nonlinear_lower", "nonlinear_upper", "nonlinear_violation"):
            ok &= _cmp(obs, "constraint_info." + name, getattr(i0, name), getattr(i1, name), counter="constraint_info_fields_compared")
    if not ok:
        return
    # ---- the same through an evaluator step (events carry results and transformed_results)
    got = {}
    for key, tr in (("a", None), ("b", T)):
        ev = ens.RecordingEvaluator(spec)
        ctx = OptimizerContext(evaluator=ev, plugin_manager=pm)
        ctx.add_observer(EventType.FINISHED_EVALUATION, lambda e, key=key: got.setdefault(key, e.data))
        plan = Plan(ctx)
        st = plan.add_step("evaluator")
        try:
            plan.run_step(st, config=ens.make_config_dict(spec), transforms=tr)
        except Exception as exc:  # noqa: BLE001  (C14 judges exceptions of the evaluator step)
            got[key] = None
            obs.count("evaluator_step_exception")
    if got.get("a") and got.get("b"):
        ra, rb = got["a"]["results"][0], got["b"]["results"][0]
        _cmp(obs, "step.evaluations.variables", ra.evaluations.variables, rb.evaluations.variables)
        _cmp(obs, "step.evaluations.objectives", ra.evaluations.objectives, rb.evaluations.objectives)
        if ra.functions is not None and rb.functions is not None:
            _cmp(obs, "step.functions.objectives", ra.functions.objectives, rb.functions.objectives)
            _cmp(obs, "step.functions.constraints", ra.functions.constraints, rb.functions.constraints)
        if ra.constraint_info is not None and rb.constraint_info is not None:
            for name in ("bound_violation", "linear_violation", "nonlinear_violation", "linear_lower", "nonlinear_upper"):
                _cmp(obs, "step.constraint_info." + name, getattr(ra.constraint_info, name), getattr(rb.constraint_info, name), counter="constraint_info_fields_compared")
        if "transformed_results" not in got["b"]:
            obs.violation("event_without_transformed_results")
    obs.nontrivial(case["i"])
    obs.sample({"V": V, "transforms": tspec, "ptypes": ptypes, "btypes": spec["btypes"], "n_lin": n_lin, "n_con": n_con})
