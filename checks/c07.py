"""C07 - values handed to the optimizer match the ensemble for any request order.

The interceptor replaces scipy.optimize.minimize / differential_evolution by a scripted
algorithm that receives exactly what SciPy would (fun, jac, constraints, bounds) and plays
an enumerated request script against the real SciPyOptimizer -> EnsembleOptimizer ->
EnsembleEvaluator -> recording evaluator stack.  A second workload runs the real SciPy
methods with recording wrappers around the same callables."""
from __future__ import annotations

import itertools

import numpy as np

from vlib import ens, scipy_hook
from vlib.build import rng_for

PROPERTY = "C07"
LEVEL = "exploration"
TECHNIQUE = "runtime monitoring with schedule enumeration: scripted algorithm behind the scipy.optimize boundary issuing every bounded request sequence; value-at-x reference model + per-point-epoch evaluation counters at the evaluator boundary; real SciPy methods as additional schedule generators"
LEVEL_TEXT = ("every request sequence up to length 3 (quick) / 4 (thorough) over {objective, gradient, constraint value k, constraint Jacobian k} x 3 pool points, for speculative x split_evaluations x "
              "constraint sets x method classes (SLSQP, COBYLA, L-BFGS-B, Nelder-Mead, DE sequential, DE vectorized batches); sampled length 6-8; real methods on small problems")
LEVEL_NOTE = "trusted: reference value model (finite differences on a quadratic ensemble with an injected axis design), the interceptor; pool points are identical or >=0.05 apart"
ANCHOR_FILES = ["src/ropt/plugins/optimizer/scipy.py", "src/ropt/plugins/optimizer/utils.py", "src/ropt/optimization/_optimizer.py", "src/ropt/ensemble_evaluator/_ensemble_evaluator.py"]
EXECUTION_COUNTERS = ["scripts", "real_method_runs"]   # executions of the oracle inside the cases (reported as coverage.evaluations)
RULE = ("case = (method class, constraint set, speculative, split, first request(s)) with every continuation inside; a script is non-trivial if it visits at least two different points or requests "
        "two different quantities; distinct key = case; monitor_counters: scripts, values compared, epochs checked")
ASSUMPTIONS = ["points of the pool are identical or separated by much more than the plug-in's allclose tolerance", "the scripted algorithm calls the callables the way SciPy does (1-D points; (V,S) batches for vectorized DE)"]
EXHAUSTIVE = {"quick": True, "thorough": True}
BOUNDS = {"quick": {"script_length": 3}, "thorough": {"script_length": 4}}
REQUIRED = {"quick": {"scripts": 20000, "values_compared": 60000, "epochs_checked": 40000, "speculative_pairs_compared": 5000, "constraint_first_at_new_point": 3000, "gradient_first_at_new_point": 3000, "batch_requests": 1000, "batch_requests_in_reused_buffer": 600, "scripts_with_reused_point_array": 10000, "scripts_over_close_points_with_tolerance_option": 600, "scripts_over_points_with_large_coordinates_of_either_sign": 180, "scripts_with_all_failed_evaluations": 100, "scripts_with_requests_outside_the_variable_bounds": 200, "real_method_runs": 36, "__nontrivial__": 150},
            "thorough": {"scripts": 600000, "values_compared": 2000000, "epochs_checked": 1500000, "speculative_pairs_compared": 150000, "constraint_first_at_new_point": 100000, "gradient_first_at_new_point": 100000, "batch_requests": 30000, "batch_requests_in_reused_buffer": 20000, "scripts_with_reused_point_array": 300000, "scripts_over_close_points_with_tolerance_option": 15000, "scripts_over_points_with_large_coordinates_of_either_sign": 4000, "scripts_with_all_failed_evaluations": 2500, "scripts_with_requests_outside_the_variable_bounds": 5000, "real_method_runs": 600, "__nontrivial__": 1500}}

V = 2
FAR_POOL = np.array([[0.1, -0.2], [0.35, 0.15], [-0.3, 0.4]])
CLOSE_POOL = np.array([[0.35, 0.15], [0.35 * 1.04, 0.15 * 1.04], [0.35 * 0.97, 0.15 * 0.97]])   # far beyond rtol 1e-5, within a loose `tolerance`
WIDE_POOL = np.array([[-3.0, 2.5], [0.8, -4.0], [-12.0, -7.0]])      # coordinates of either sign and of a magnitude beyond one
POOL = FAR_POOL
MAG = 0.01
CLASSES = {
    "slsqp": {"method": "slsqp", "grad": True, "cons": ["none", "nl", "lin", "both"]},
    "cobyla": {"method": "cobyla", "grad": False, "cons": ["none", "nl", "lin", "both"]},
    "l-bfgs-b": {"method": "l-bfgs-b", "grad": True, "cons": ["none"]},
    "nelder-mead": {"method": "nelder-mead", "grad": False, "cons": ["none"]},
    "de": {"method": "differential_evolution", "grad": False, "cons": ["none", "nl", "both"]},
    "de_vec": {"method": "differential_evolution", "grad": False, "cons": ["none", "nl"], "parallel": True},
}


def _spec(cls, cons, speculative, split):
    c = CLASSES[cls]
    n_con = 1 if cons in ("nl", "both") else 0
    R = 2
    F = 1 + n_con
    rng = np.random.default_rng(12345)
    spec = {"V": V, "R": R, "P": V, "rweights": [1.0, 3.0], "oweights": [1.0], "n_con": n_con, "x0": POOL[0].tolist(),
            "magnitudes": [MAG], "btypes": [1], "seed": 3,
            "samplers": [{"method": "verif/design", "options": {"samples": np.eye(V).tolist()}}],
            "ensemble": {"kind": "quad", "a": rng.normal(size=(R, F, V)).tolist(), "b": rng.normal(size=(R, F)).tolist(),
                         "q": [1.0, 0.5][:F], "c": rng.normal(size=(R, V)).tolist()}, "nan": [],
            # the method name under the spellings a configuration may use (bare, qualified, other case)
            "optimizer": {"method": [c["method"], "scipy/" + c["method"], c["method"].upper(), "SciPy/" + c["method"].title()][(2 * int(speculative) + int(split) + len(cons)) % 4],
                          "speculative": speculative, "split_evaluations": split, "parallel": bool(c.get("parallel"))}}
    if n_con:
        spec["con_lb"], spec["con_ub"] = [-0.4], [0.9]     # two-sided -> 2 normalized rows
        if cls == "cobyla":
            pass
    if cons in ("lin", "both"):
        spec["linear"] = {"coefficients": [[1.0, -2.0]], "lower_bounds": [-np.inf], "upper_bounds": [1.5]}
    if c["method"] == "differential_evolution":
        spec["lb"], spec["ub"] = [-1.0, -1.0], [1.0, 1.0]
    return spec


class Reference:
    def __init__(self, spec):
        self.ens = ens.Ensemble(spec["ensemble"])
        self.w = np.asarray(spec["rweights"]) / np.sum(spec["rweights"])
        self.F = 1 + spec["n_con"]
        self.spec = spec
        self._memo = {}

    def functions(self, x):
        k = ("f", tuple(np.asarray(x).tolist()))
        if k not in self._memo:
            self._memo[k] = self._functions(x)
        return self._memo[k]

    def gradients(self, x):
        k = ("g", tuple(np.asarray(x).tolist()))
        if k not in self._memo:
            self._memo[k] = self._gradients(x)
        return self._memo[k]

    def _functions(self, x):
        return np.array([sum(self.w[r] * self.ens.value(x, r, j) for r in range(len(self.w))) for j in range(self.F)])

    def _gradients(self, x):
        g = np.zeros((self.F, V))
        for j in range(self.F):
            for k in range(V):
                e = np.zeros(V)
                e[k] = MAG
                g[j, k] = sum(self.w[r] * (self.ens.value(x + e, r, j) - self.ens.value(x, r, j)) / MAG for r in range(len(self.w)))
        return g

    def normalized(self, x):
        """Rows in the order NormalizedConstraints creates them: (value, jacobian, is_eq) for dict-style constraints."""
        s = self.spec
        vals, jacs, lo, hi = [], [], [], []
        if s["n_con"]:
            f, g = self.functions(x), self.gradients(x)
            for j in range(s["n_con"]):
                vals.append(f[1 + j]); jacs.append(g[1 + j]); lo.append(s["con_lb"][j]); hi.append(s["con_ub"][j])
        if s.get("linear"):
            A = np.asarray(s["linear"]["coefficients"])
            for i in range(A.shape[0]):
                vals.append(float(A[i] @ x)); jacs.append(A[i]); lo.append(s["linear"]["lower_bounds"][i]); hi.append(s["linear"]["upper_bounds"][i])
        rows = []
        for v, jac, l, h in zip(vals, jacs, lo, hi):
            if abs(h - l) < 1e-15:
                rows.append((v - l, jac, True))
            else:
                if np.isfinite(l):
                    rows.append((v - l, jac, False))
                if np.isfinite(h):
                    rows.append((h - v, -np.asarray(jac), False))
        return rows


def _alphabet(cls, spec):
    c = CLASSES[cls]
    kinds = ["f"]
    if c["grad"]:
        kinds.append("g")
    ref = Reference(spec)
    nrows = len(ref.normalized(POOL[0]))
    if c["method"] != "differential_evolution":
        for k in range(nrows):
            kinds.append(("c", k))
            if cls == "slsqp":
                kinds.append(("j", k))
    elif spec["n_con"]:
        kinds.append("C")          # NonlinearConstraint.fun
    return kinds


def cases(tier, seed):
    L = BOUNDS[tier]["script_length"]
    for cls, c in CLASSES.items():
        for cons in c["cons"]:
            for speculative in (False, True):
                for split in (False, True):
                    spec = _spec(cls, cons, speculative, split)
                    reqs = [(k, p) for k in _alphabet(cls, spec) for p in range(3)]
                    plen = 1
                    while len(reqs) ** (L - plen) > 3000 and plen < L:
                        plen += 1
                    for pre in itertools.product(range(len(reqs)), repeat=plen):
                        yield {"mode": "exhaustive", "cls": cls, "cons": cons, "speculative": speculative, "split": split, "prefix": list(pre), "L": L}
    for i in range(60 if tier == "quick" else 1500):
        yield {"mode": "sampled", "i": i}
    for i in range(60 if tier == "quick" else 1000):
        yield {"mode": "real", "i": i}


_CFG_CACHE = {}


def _play(obs, cls, spec, script, reqs, record_only=False):
    """Run one script through the real stack. Returns list of returned values (or None on violation)."""
    from ropt.ensemble_evaluator import EnsembleEvaluator  # noqa: PLC0415
    from ropt.optimization import EnsembleOptimizer  # noqa: PLC0415

    key = repr(sorted(spec["optimizer"].items())) + repr(spec.get("linear")) + repr(spec["n_con"]) + repr(spec["x0"]) + repr(spec.get("lb"))
    if key not in _CFG_CACHE:
        _CFG_CACHE[key] = (ens.make_config(spec), Reference(spec))
    cfg, ref = _CFG_CACHE[key]
    ev = ens.RecordingEvaluator(spec)
    pm = ens.plugin_manager()
    ee = EnsembleEvaluator(cfg, None, ev, pm)
    out = []
    state = {"ok": True}
    vec = bool(CLASSES[cls].get("parallel"))
    gradfree = not CLASSES[cls]["grad"]
    split = spec["optimizer"]["split_evaluations"]

    def handler(name, orig, args, kw):
        fun = kw.get("fun") or kw.get("func")
        jac = kw.get("jac")
        cons = kw.get("constraints") or []
        epoch_point, epoch_start = None, 0
        popbuf = np.zeros((2, POOL.shape[1]))
        xbuf, reuse_x = np.zeros(POOL.shape[1]), sum(script) % 2 == 0
        if reuse_x:
            obs.count("scripts_with_reused_point_array")
        for ri in script:
            kind, p = reqs[ri]
            if reuse_x:
                xbuf[...] = POOL[p]              # SLSQP and friends hand over one work array that they update in place
                x = xbuf
            else:
                x = POOL[p].copy()
            if epoch_point is None or epoch_point != p:
                _close_epoch(obs, ev, epoch_start, spec, state, script, reqs)
                epoch_point, epoch_start = p, len(ev.calls)
                first_in_epoch = True
            else:
                first_in_epoch = False
            if vec and kind in ("f", "C"):
                obs.count("batch_requests")
                # (the second member varies from request to request: consecutive populations may share a member at the same row)
                pts = [p, (p + 1 + len(out) % 2) % 3]
                if len(out) % 3 == 2:
                    xb = POOL[pts].T.copy()      # (V, S), a fresh array as SciPy's DE hands over
                else:
                    # a population kept in one array that the algorithm updates in place between requests
                    popbuf[...] = POOL[pts]
                    xb = popbuf.T
                    obs.count("batch_requests_in_reused_buffer")
                got = fun(xb) if kind == "f" else cons[-1].fun(xb)
                want = np.array([ref.functions(POOL[q]) for q in pts])     # (S, F)
                want = want[:, 0] if kind == "f" else want[:, 1:].T
                epoch_point = None               # a batch covers several points
            elif kind == "f":
                got, want = fun(x), ref.functions(x)[0]
            elif kind == "g":
                if first_in_epoch:
                    obs.count("gradient_first_at_new_point")
                got, want = jac(x), ref.gradients(x)[0]
            elif kind == "C":
                got, want = cons[-1].fun(x), ref.functions(x)[1:]
            else:
                k = kind[1]
                if first_in_epoch:
                    obs.count("constraint_first_at_new_point")
                rows = ref.normalized(x)
                if kind[0] == "c":
                    got, want = cons[k]["fun"](x), rows[k][0]
                else:
                    got, want = cons[k]["jac"](x), rows[k][1]
            got = np.asarray(got, dtype=np.float64)
            out.append(got.copy())
            if record_only or spec.get("_all_failed"):
                continue
            obs.count("values_compared")
            if got.shape != np.shape(want) and got.size != np.size(want):
                obs.violation("returned_shape", request=[kind, p], got=got, want=want)
                state["ok"] = False
                return None
            if not np.allclose(np.ravel(got), np.ravel(want), rtol=1e-9, atol=1e-9):
                # which point does the value belong to?
                stale = None
                for q in range(3):
                    if q != p and kind not in ("f", "g", "C") :
                        rq = ref.normalized(POOL[q])
                        cand = rq[kind[1]][0] if kind[0] == "c" else rq[kind[1]][1]
                        if np.allclose(np.ravel(got), np.ravel(cand), rtol=1e-9, atol=1e-9):
                            stale = q
                obs.violation("value_not_for_requested_point", request=[kind, p], script=[reqs[i] for i in script], got=got, want=want,
                              value_belongs_to_pool_point=stale, cls=cls, speculative=spec["optimizer"]["speculative"], split=split)
                state["ok"] = False
                return None
        _close_epoch(obs, ev, epoch_start, spec, state, script, reqs)
        return None

    with scipy_hook.active(handler) as hook:
        opt = EnsembleOptimizer(enopt_config=cfg, ensemble_evaluator=ee, plugin_manager=pm)
        opt.start(np.array(spec["x0"]))
    if hook.entered != 1:
        obs.count("interceptor_not_entered")
        return None
    if not state["ok"]:
        return None
    # global rules at the evaluator boundary
    for c in ev.calls:
        perts = c.perturbations
        has_pert = perts is not None and np.any(perts >= 0)
        has_unpert = perts is None or np.any(perts < 0)
        if gradfree and has_pert:
            obs.violation("gradient_free_method_caused_perturbations", cls=cls, script=[reqs[i] for i in script], speculative=spec["optimizer"]["speculative"])
            return None
        if split and has_pert and has_unpert:
            obs.violation("split_evaluations_combined_call", cls=cls, script=[reqs[i] for i in script], speculative=spec["optimizer"]["speculative"])
            return None
    return out


def _close_epoch(obs, ev, start, spec, state, script, reqs):
    """Within one point epoch no quantity is evaluated twice: at most one set of unperturbed rows and one set of perturbed rows."""
    calls = ev.calls[start:]
    if not calls:
        return
    obs.count("epochs_checked")
    n_f = sum(1 for c in calls if c.perturbations is None or np.any(c.perturbations < 0))
    n_g = sum(1 for c in calls if c.perturbations is not None and np.any(c.perturbations >= 0))
    if n_f > 1 or n_g > 1:
        obs.violation("quantity_evaluated_twice_at_one_point", function_evaluations=n_f, gradient_evaluations=n_g,
                      script=[reqs[i] for i in script], speculative=spec["optimizer"]["speculative"], split=spec["optimizer"]["split_evaluations"])
        state["ok"] = False


def run_case(case, obs):
    if case["mode"] == "real":
        return _real(case, obs)
    if case["mode"] == "sampled":
        rng = rng_for(obs.seed, "c07s", case["i"])
        cls = list(CLASSES)[int(rng.integers(len(CLASSES)))]
        cons = CLASSES[cls]["cons"][int(rng.integers(len(CLASSES[cls]["cons"])))]
        speculative, split = bool(rng.random() < 0.5), bool(rng.random() < 0.5)
        tol = None
        if rng.random() < 0.5:
            # a loose convergence tolerance and points a few percent apart: still different points
            global POOL  # noqa: PLW0603
            tol = float(rng.choice([1e-8, 1e-3, 0.05, 0.3]))
            POOL = CLOSE_POOL
            obs.count("scripts_over_close_points_with_tolerance_option", 40)
        elif rng.random() < 0.5 and "lb" not in _spec(cls, cons, speculative, split):
            POOL = WIDE_POOL
            obs.count("scripts_over_points_with_large_coordinates_of_either_sign", 40)
        try:
            spec = _spec(cls, cons, speculative, split)
            if tol is not None:
                spec["optimizer"]["tolerance"] = tol
            if cls in ("de", "de_vec") and rng.random() < 0.5:
                # every realization fails everywhere (tolerated with a threshold of zero by this NaN-tolerant method): the values
                # handed over are not judged, the evaluation counts are - an undefined value is a computed value as well
                spec["rmin"] = 0
                spec["nan"] = [{"call": None, "r": r, "p": -1, "col": 0} for r in range(spec["R"])]
                spec["_all_failed"] = True
                obs.count("scripts_with_all_failed_evaluations", 40)
            if cls not in ("de", "de_vec", "cobyla") and rng.random() < 0.6:      # (ropt refuses COBYLA with variable bounds)
                # finite variable bounds that some points of the pool lie outside of (the start included): an algorithm may ask
                # anywhere (line searches overshoot, COBYLA and Nelder-Mead probe outside), and it is told the value there
                spec["lb"], spec["ub"] = [float(np.sort(POOL[:, 0])[1]), -100.0], [100.0, 100.0]      # one point of the pool lies below
                if np.any((POOL < np.array(spec["lb"])) | (POOL > np.array(spec["ub"]))):
                    obs.count("scripts_with_requests_outside_the_variable_bounds", 40)
            reqs = [(k, p) for k in _alphabet(cls, spec) for p in range(3)]
            scripts = [[int(x) for x in rng.integers(len(reqs), size=int(rng.integers(5, 9)))] for _ in range(40)]
            return _run_scripts(case, obs, cls, cons, speculative, split, spec, reqs, scripts, tol)
        finally:
            POOL = FAR_POOL
    else:
        cls, cons, speculative, split, L = case["cls"], case["cons"], case["speculative"], case["split"], case["L"]
        spec = _spec(cls, cons, speculative, split)
        reqs = [(k, p) for k in _alphabet(cls, spec) for p in range(3)]
        pre = case["prefix"]
        scripts = ([*pre, *rest] for rest in itertools.product(range(len(reqs)), repeat=L - len(pre)))
    return _run_scripts(case, obs, cls, cons, speculative, split, spec, reqs, scripts, None)


def _run_scripts(case, obs, cls, cons, speculative, split, spec, reqs, scripts, tol):
    other = _spec(cls, cons, not speculative, split)
    if tol is not None:
        other["optimizer"]["tolerance"] = tol
    nontrivial = False
    for script in scripts:
        obs.count("scripts")
        a = _play(obs, cls, spec, script, reqs)
        if a is None:
            continue
        if len({reqs[i][1] for i in script}) > 1 or len({str(reqs[i][0]) for i in script}) > 1:
            nontrivial = True
        # speculative changes only how many evaluations happen, never the values returned
        if speculative and not spec.get("_all_failed"):
            b = _play(obs, cls, other, script, reqs, record_only=True)
            if b is not None:
                obs.count("speculative_pairs_compared")
                if len(a) != len(b) or any(not np.allclose(u, v, rtol=1e-12, atol=1e-12) for u, v in zip(a, b)):
                    obs.violation("speculative_changes_values", cls=cls, script=[reqs[i] for i in script])
    if nontrivial:
        obs.nontrivial(case)
    obs.feature(f"cls.{cls}")
    obs.feature(f"cons.{cons}")
    obs.sample({"cls": cls, "cons": cons, "speculative": speculative, "split": split, "first_requests": [reqs[i] for i in case.get("prefix", [])]})


def _real(case, obs):
    """Real SciPy methods as schedule generators: wrap the callables they receive."""
    from ropt.ensemble_evaluator import EnsembleEvaluator  # noqa: PLC0415
    from ropt.optimization import EnsembleOptimizer  # noqa: PLC0415

    rng = rng_for(obs.seed, "c07r", case["i"])
    cls = ["slsqp", "cobyla", "l-bfgs-b", "nelder-mead", "de", "de_vec"][int(rng.integers(6))]
    cons = CLASSES[cls]["cons"][int(rng.integers(len(CLASSES[cls]["cons"])))]
    spec = _spec(cls, cons, bool(rng.random() < 0.5), bool(rng.random() < 0.5))
    # the other supported methods of the same class produce other schedules
    if cls == "l-bfgs-b":
        spec["optimizer"]["method"] = str(rng.choice(["l-bfgs-b", "tnc", "cg", "bfgs", "newton-cg"]))
    elif cls == "nelder-mead":
        spec["optimizer"]["method"] = str(rng.choice(["nelder-mead", "powell"]))
    obs.feature("real.method." + spec["optimizer"]["method"])
    spec["optimizer"]["max_iterations"] = 4
    spec["optimizer"]["options"] = {"maxfun": 12} if spec["optimizer"]["method"] == "tnc" else {"maxiter": 4}
    if CLASSES[cls]["method"] == "differential_evolution":
        spec["optimizer"]["options"] = {"seed": int(rng.integers(1000)), "popsize": 3, "tol": 0.5}
        spec["optimizer"]["max_iterations"] = 2
    spec["x0"] = rng.uniform(-0.4, 0.4, size=V).tolist()
    case["spec"] = spec
    cfg = ens.make_config(spec)
    ev = ens.RecordingEvaluator(spec)
    pm = ens.plugin_manager()
    ee = EnsembleEvaluator(cfg, None, ev, pm)
    ref = Reference(spec)
    vec = bool(CLASSES[cls].get("parallel"))
    bad = []
    counts = {"f": 0, "g": 0, "c": 0, "j": 0}

    recent = []      # recently requested 1-D points with the reference evaluated there, per kind

    def chk(kind, x, got, want, ref_at=None):
        counts[kind[0]] += 1
        obs.count("values_compared")
        ok = np.allclose(np.ravel(got), np.ravel(want), rtol=1e-8, atol=1e-8)
        if not ok and np.ndim(x) == 1 and ref_at is not None:
            # line searches produce points closer than the plug-in's own allclose tolerance (rtol 1e-5, atol 1e-8): such a point
            # IS the cached point for the plug-in (the quantifier only speaks about identical or well separated points)
            for p in reversed(recent):   # the cached point may be many requests back: a converging line search stays within the tolerance
                if p.shape == np.shape(x) and np.allclose(x, p, rtol=1e-5, atol=1e-8) and np.allclose(np.ravel(got), np.ravel(ref_at(p)), rtol=1e-8, atol=1e-8):
                    ok = True
                    obs.count("real_method_point_within_cache_tolerance")
                    break
        if np.ndim(x) == 1:
            recent.append(np.array(x, copy=True))
        if not ok and not bad:
            bad.append({"kind": kind, "x": np.array(x), "got": np.array(got), "want": np.array(want)})

    def handler(name, orig, args, kw):
        kw = dict(kw)
        fkey = "fun" if "fun" in kw else "func"
        f0 = kw[fkey]

        def fun(x, *a):
            got = f0(x, *a)
            if x.ndim > 1:
                want = np.array([ref.functions(x[:, s])[0] for s in range(x.shape[1])])
            else:
                want = ref.functions(x)[0]
            chk("f", x, got, want, ref_at=lambda p: ref.functions(p)[0])
            return got

        kw[fkey] = fun
        if callable(kw.get("jac")):
            j0 = kw["jac"]

            def jac(x, *a):
                got = j0(x, *a)
                chk("g", x, got, ref.gradients(x)[0], ref_at=lambda p: ref.gradients(p)[0])
                return got

            kw["jac"] = jac
        newc = []
        for k, con in enumerate(kw.get("constraints") or []):
            if isinstance(con, dict):
                d = dict(con)
                cf = con["fun"]
                d["fun"] = (lambda x, cf=cf, k=k: (lambda got: (chk(("c", k), x, got, ref.normalized(x)[k][0], ref_at=lambda p, k=k: ref.normalized(p)[k][0]), got)[1])(cf(x)))
                if "jac" in con:
                    cj = con["jac"]
                    d["jac"] = (lambda x, cj=cj, k=k: (lambda got: (chk(("j", k), x, got, ref.normalized(x)[k][1], ref_at=lambda p, k=k: ref.normalized(p)[k][1]), got)[1])(cj(x)))
                newc.append(d)
            elif hasattr(con, "fun"):
                from scipy.optimize import NonlinearConstraint  # noqa: PLC0415

                cf = con.fun

                def cfun(x, cf=cf):
                    got = cf(x)
                    if x.ndim > 1:
                        want = np.array([ref.functions(x[:, s])[1:] for s in range(x.shape[1])]).T
                    else:
                        want = ref.functions(x)[1:]
                    chk("c", x, got, want)
                    return got

                newc.append(NonlinearConstraint(cfun, con.lb, con.ub))
            else:
                newc.append(con)
        if "constraints" in kw:
            kw["constraints"] = newc
        import warnings  # noqa: PLC0415

        with warnings.catch_warnings():
            warnings.simplefilter("ignore")
            return orig(*args, **kw)

    with scipy_hook.active(handler) as hook:
        opt = EnsembleOptimizer(enopt_config=cfg, ensemble_evaluator=ee, plugin_manager=pm)
        opt.start(np.array(spec["x0"]))
    if hook.entered != 1:
        obs.count("interceptor_not_entered")
        return
    obs.count("real_method_runs")
    obs.feature("real." + cls)
    obs.nontrivial("real", case["i"])
    if bad:
        obs.violation("real_method_value_not_for_requested_point", cls=cls, **bad[0])
    gradfree = not CLASSES[cls]["grad"]
    for c in ev.calls:
        has_pert = c.perturbations is not None and np.any(c.perturbations >= 0)
        has_unpert = c.perturbations is None or np.any(c.perturbations < 0)
        if gradfree and has_pert:
            obs.violation("gradient_free_method_caused_perturbations", cls=cls, real=True)
            return
        if spec["optimizer"]["split_evaluations"] and has_pert and has_unpert:
            obs.violation("split_evaluations_combined_call", cls=cls, real=True)
            return
