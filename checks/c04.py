"""C04 - CVaR filter weights realize the tail expectation over the worst fraction.

Deciding boundary: DefaultRealizationFilter.get_realization_weights (real filter
object made by the plug-in manager from a real EnOptConfig) and, end to end,
FunctionResults of EnsembleEvaluator.calculate.  Oracle: exact rational model
(vlib.models.check_cvar_weights)."""
from __future__ import annotations

import itertools

import numpy as np

from vlib import ens, models
from vlib.build import rng_for

PROPERTY = "C04"
CASE_TIMEOUT = 900
LEVEL = "exploration"
TECHNIQUE = "runtime monitoring: real filter objects driven over bounded-exhaustive orderings x failure masks x percentile grid, exact-rational reference oracle"
LEVEL_TEXT = ("every weight vector returned by the real CVaR filter over all orderings/failure masks for n<=5 (quick) / n<=7 (thorough) "
              "on a rational percentile grid incl. one-ulp neighbours of k/n, plus sampled n<=60 with ties and end-to-end tail means, "
              "was compared with an exact-rational model; says nothing about n beyond the bounds")
LEVEL_NOTE = "trusted: vlib.models.check_cvar_weights (Fraction arithmetic), NumPy; two-sided constraints only judged on sign/support/mass"
ANCHOR_FILES = ["src/ropt/plugins/realization_filter/default.py", "src/ropt/plugins/realization_filter/base.py",
                "src/ropt/ensemble_evaluator/_ensemble_evaluator.py"]
EXECUTION_COUNTERS = ["cvar.calls", "cvar.e2e"]   # executions of the oracle inside the cases (reported as coverage.evaluations)
CONTRACT_GROUPS = ['C04']   # icontract layer (vlib/contracts.py) active inside the workload and in the repository's own tests
RULE = ("case = (n, failure mask, flavour[, bound kind]); inside a case every ordering of the successful values "
        "(all permutations for n<=NMAX, sampled with ties beyond) x every percentile of the grid is sent to the real "
        "filter; a (case) is non-trivial if at least one realization succeeded and the percentile leaves a proper tail "
        "(0 < ceil(p*n) ) - distinct key = (n, mask, flavour, kind, sampled-seed); sub-evaluations are counted in "
        "monitor_counters.cvar.calls")
ASSUMPTIONS = ["failed realizations are passed to filters as all-NaN rows (what the ensemble evaluator does after NaN propagation)",
               "two-sided/unbounded constraint filters: only sign, support size, mass and magnitudes are judged (the statement does not define 'worst' there)",
               "a percentile within 1e-12 of k/n may give k or ceil(p*n) non-zero weights; negative weights are never accepted"]
EXHAUSTIVE = {"quick": False, "thorough": False}
BOUNDS = {"quick": {"exhaustive_n": 5, "sampled_n_max": 30}, "thorough": {"exhaustive_n": 7, "sampled_n_max": 60}}
REQUIRED = {"quick": {"cvar.calls": 20000, "cvar.e2e": 200, "cvar.with_an_infinite_value_in_an_unranked_function": 7000, "cvar.e2e_with_an_infinite_value_in_an_unranked_function": 60, "cvar.with_zero_configured_weight": 700, "cvar.e2e_with_unreferenced_filters_in_front": 100, "cvar.e2e_after_another_constraint_filter": 60, "cvar.e2e_later_evaluation_of_same_evaluator": 200, "cvar.no_success": 10, "__nontrivial__": 100},
            "thorough": {"cvar.calls": 1000000, "cvar.e2e": 2000, "cvar.with_an_infinite_value_in_an_unranked_function": 70000, "cvar.e2e_with_an_infinite_value_in_an_unranked_function": 600, "cvar.with_zero_configured_weight": 7000, "cvar.e2e_with_unreferenced_filters_in_front": 1000, "cvar.e2e_after_another_constraint_filter": 600, "cvar.e2e_later_evaluation_of_same_evaluator": 2000, "cvar.no_success": 50, "__nontrivial__": 1000}}

FLAVOURS = [("objective", None), ("constraint", "upper"), ("constraint", "lower"), ("constraint", "eq"),
            ("constraint", "two"), ("objective2", None), ("objective_neg", None)]


def _grid(n: int, tier: str) -> list[float]:
    ms = [2, 3, 4, 5, 7, 10] if tier == "quick" else [2, 3, 4, 5, 7, 10, 20, 100]
    g = {1.0}
    for m in ms:
        for k in range(1, m + 1):
            g.add(k / m)
    for k in range(1, n + 1):
        v = k / n
        g.add(v)
        lo, hi = float(np.nextafter(v, 0.0)), float(np.nextafter(v, 2.0))
        if lo > 0:
            g.add(lo)
        if hi <= 1.0:
            g.add(hi)
    # decimal percentiles whose product with n rounds across an integer
    for k in range(1, 100):
        p = k / 100
        if abs(round(p * n) - p * n) < 1e-9:
            g.add(p)
    return sorted(x for x in g if 0.0 < x <= 1.0)


def cases(tier: str, seed: int):
    nmax = BOUNDS[tier]["exhaustive_n"]
    for n in range(1, nmax + 1):
        for mask in itertools.product([False, True], repeat=n):
            for fl, kind in FLAVOURS:
                if n >= nmax and fl != "objective" and sum(not m for m in mask) >= nmax - 0 and tier == "quick":
                    continue
                chunks = 8 if (n >= 7 and sum(not m for m in mask) >= 6) else 1      # keep every case well below the per-case watchdog
                for ch in range(chunks):
                    yield {"mode": "exhaustive", "n": n, "failed": list(mask), "flavour": fl, "kind": kind, "chunk": [ch, chunks]}
    count = 300 if tier == "quick" else 6000
    for i in range(count):
        rng = rng_for(seed, "c04s", i)
        n = int(rng.integers(2, BOUNDS[tier]["sampled_n_max"] + 1))
        fl, kind = FLAVOURS[int(rng.integers(len(FLAVOURS)))]
        failed = (rng.random(n) < rng.choice([0.0, 0.2, 0.6, 1.0], p=[0.4, 0.35, 0.2, 0.05])).tolist()
        yield {"mode": "sampled", "n": n, "failed": failed, "flavour": fl, "kind": kind, "i": i}
    count = 400 if tier == "quick" else 4000
    for i in range(count):
        yield {"mode": "e2e", "i": i}


def _config(n, flavour, kind, percentile, rng, weights=None, first_filter=None, unused_front=0):
    from ropt.config.enopt import EnOptConfig  # noqa: PLC0415

    cfg = {"variables": {"initial_values": [0.0, 0.0]},
           "realizations": {"weights": (weights if weights is not None else [1.0] * n), "realization_min_success": 0}}
    if flavour == "objective":
        cfg["objectives"] = {"weights": [1.0], "realization_filters": [0]}
        cfg["realization_filters"] = [{"method": "cvar-objective", "options": {"sort": [0], "percentile": percentile}}]
        meta = {"ow": [1.0], "sort": [0]}
    elif flavour == "objective2":
        ow = [0.25, 0.0, 0.75]
        cfg["objectives"] = {"weights": ow, "realization_filters": [0, -1, 0]}
        # (the ranked objectives listed in either order: the key is the same weighted sum)
        order = [0, 2] if rng.random() < 0.5 else [2, 0]
        cfg["realization_filters"] = [{"method": ["cvar-objective", "default/cvar-objective", "Default/CVaR-Objective"][int(rng.integers(3))],
                                       "options": {"sort": order, "percentile": percentile}}]
        meta = {"ow": ow, "sort": order}
    elif flavour == "objective_neg":
        # a maximised (negatively weighted) objective ranked alone in a multi-objective problem
        ow = [2.0, -1.0]
        cfg["objectives"] = {"weights": ow, "realization_filters": [-1, 0]}
        cfg["realization_filters"] = [{"method": "cvar-objective", "options": {"sort": [1], "percentile": percentile}}]
        meta = {"ow": ow, "sort": [1]}
    else:
        lo, hi = {"upper": (-np.inf, 0.3), "lower": (-0.2, np.inf), "eq": (0.1, 0.1), "two": (-0.5, 0.5)}[kind]
        cfg["objectives"] = {"weights": [1.0]}
        cfg["nonlinear_constraints"] = {"lower_bounds": [-np.inf, lo], "upper_bounds": [1.0, hi],
                                        "realization_filters": [-1, 0]}
        cfg["realization_filters"] = [{"method": "cvar-constraint", "options": {"sort": 1, "percentile": percentile}}]
        meta = {"lo": lo, "hi": hi}
        if first_filter is not None:
            # another constraint filter, on constraint 0, evaluated before the judged one: both see the same constraint array
            cfg["realization_filters"].insert(0, first_filter)
            cfg["nonlinear_constraints"]["realization_filters"] = [0, 1]
    if unused_front:
        # filters that no objective or constraint refers to sit in front of the judged one: indices in the maps are positions
        # in the configured tuple
        front = [{"method": "sort-objective", "options": {"sort": [0], "first": 0, "last": 0}},
                 {"method": "cvar-objective", "options": {"sort": [0], "percentile": 0.5}}][:unused_front]
        cfg["realization_filters"] = front + cfg["realization_filters"]
        for sec in ("objectives", "nonlinear_constraints"):
            if sec in cfg and cfg[sec].get("realization_filters") is not None:
                cfg[sec]["realization_filters"] = [(-1 if k < 0 else k + unused_front) for k in cfg[sec]["realization_filters"]]
    return EnOptConfig.model_validate(cfg), meta


def _badness(flavour, kind, meta, values):
    """values: ranked raw values (n,) or (n, k). Larger badness = worse."""
    if flavour == "objective":
        return values
    if flavour == "objective2":
        w = np.asarray(meta["ow"])[meta["sort"]]
        return values @ w
    if flavour == "objective_neg":
        return values * meta["ow"][1] / sum(meta["ow"])
    if kind == "upper":
        return values
    if kind == "lower":
        return -values
    if kind == "eq":
        return np.abs(values - meta["lo"])
    return None


def _unranked(rng, n, failed, obs=None):
    """Values of a function the filter does not rank: whatever they are (infinite included), they do not matter to it."""
    col = rng.normal(size=n) * 100
    succ = np.flatnonzero(~np.asarray(failed, dtype=bool))
    if succ.size and rng.random() < 0.25:
        col[succ[int(rng.integers(succ.size))]] = rng.choice([np.inf, -np.inf])
        if obs is not None:
            obs.count("cvar.with_an_infinite_value_in_an_unranked_function")
    return col


def _call(flt, flavour, meta, ranked, failed, rng, obs=None):
    n = len(failed)
    if flavour == "objective":
        obj = ranked.reshape(n, 1).copy()
        con = None
    elif flavour == "objective_neg":
        obj = np.stack([_unranked(rng, n, failed, obs), ranked], axis=1)
        con = None
    elif flavour == "objective2":
        obj = np.empty((n, 3))
        obj[:, meta["sort"]] = ranked       # column k of the ranked values is objective sort[k]
        obj[:, 1] = _unranked(rng, n, failed, obs)
        con = None
    else:
        obj = rng.normal(size=(n, 1))
        con = np.empty((n, 2))
        con[:, 0] = _unranked(rng, n, failed, obs)
        con[:, 1] = ranked
        con[failed, :] = np.nan
    obj[failed, :] = np.nan
    return flt.get_realization_weights(obj, con)


def _one(obs, flt, flavour, kind, meta, ranked, failed, percentile, rng):
    from ropt.enums import OptimizerExitCode  # noqa: PLC0415
    from ropt.exceptions import OptimizationAborted  # noqa: PLC0415

    failed = np.asarray(failed, dtype=bool)
    obs.count("cvar.calls")
    if failed.all():
        obs.count("cvar.no_success")
        try:
            w = _call(flt, flavour, meta, ranked, failed, rng)
        except OptimizationAborted as exc:
            obs.check(exc.exit_code == OptimizerExitCode.TOO_FEW_REALIZATIONS, "no_success_wrong_code", code=int(exc.exit_code))
            return
        except Exception as exc:  # noqa: BLE001
            obs.violation("no_success_exception", exception=repr(exc), n=len(failed), flavour=flavour)
            return
        obs.violation("no_success_returned_weights", w=w)
        return
    w = _call(flt, flavour, meta, ranked, failed, rng, obs)
    bad = _badness(flavour, kind, meta, ranked)
    for k, d in models.check_cvar_weights(w, bad, failed, percentile):
        obs.violation(k, flavour=flavour, kind=kind, percentile=percentile, failed=failed, ranked=ranked, w=w, **d)
        break


def run_case(case, obs):
    mode = case["mode"]
    if mode == "e2e":
        return _e2e(case, obs)
    n, failed, fl, kind = case["n"], np.array(case["failed"], dtype=bool), case["flavour"], case["kind"]
    rng = rng_for(obs.seed, "c04", n, case["failed"], fl, kind, case.get("i"))
    succ = np.flatnonzero(~failed)
    ns = succ.size
    grid = _grid(max(ns, 1), obs.tier)
    if mode == "sampled":
        grid = [grid[j] for j in rng.choice(len(grid), size=min(12, len(grid)), replace=False)] + [float(rng.uniform(1e-6, 1.0))]
    elif case.get("chunk"):
        grid = grid[case["chunk"][0]::case["chunk"][1]]
    pm = _pm()
    if ns:
        obs.nontrivial(n, case["failed"], fl, kind, case.get("i"), case.get("chunk"))
    obs.feature(f"flavour.{fl}.{kind}")
    obs.feature(f"n.{n}")
    if ns < n:
        obs.feature("has_failed")
    base = np.sort(rng.normal(size=ns))
    for p in grid:
        # configured realization weights do not matter to a CVaR filter (n counts the successful realizations): uniform,
        # non-uniform, or with exact zeros
        cw = None
        if mode == "sampled" or case.get("i", 0) % 3 == 1 or (case.get("chunk") or [0])[0] % 3 == 1:
            cw = ens.gen_weights(rng, n) if n > 1 else [1.0]
            obs.count("cvar.with_configured_weights")
            if 0.0 in cw:
                obs.count("cvar.with_zero_configured_weight")
        cfg, meta = _config(n, fl, kind, float(p), rng, weights=cw)
        flt = pm.get_plugin("realization_filter", cfg.realization_filters[0].method).create(cfg, 0)
        if mode == "exhaustive":
            perms = itertools.permutations(range(ns)) if ns else [()]
        else:
            perms = [tuple(rng.permutation(ns)) for _ in range(4)]
        for perm in perms:
            vals = base[list(perm)] if ns else base
            if mode == "sampled" and ns > 1 and rng.random() < 0.5:     # ties
                vals = np.round(vals * rng.choice([1.0, 2.0]))
                obs.count("cvar.with_ties")
            if fl == "objective2":
                ranked = np.zeros((n, 2))
                ranked[succ, 0] = vals
                ranked[succ, 1] = rng.normal(size=ns) if mode == "sampled" else vals[::-1] * 0.5
            else:
                ranked = np.zeros(n)
                ranked[succ] = vals
                if kind == "eq" and mode == "exhaustive":
                    ranked[succ] = meta["lo"] + vals  # both sides of the target
            if mode == "sampled" and fl != "objective2" and ns and rng.random() < 0.25:
                # an infinite value is a value: the infinitely bad realization is the worst one, the infinitely good one the best
                # (failed realizations never take the place of either)
                ranked = ranked.copy()
                ranked[succ[int(rng.integers(ns))]] = rng.choice([np.inf, -np.inf])
                obs.count("cvar.with_an_infinite_value")
            _one(obs, flt, fl, kind, meta, ranked, failed, float(p), rng)
    obs.sample({"n": n, "failed": case["failed"], "flavour": fl, "kind": kind, "percentiles": len(grid)})


_PMO = None


def _pm():
    global _PMO  # noqa: PLW0603
    if _PMO is None:
        from ropt.plugins import PluginManager  # noqa: PLC0415

        _PMO = PluginManager()
    return _PMO


def _e2e(case, obs):
    """Tail mean reported by the real ensemble evaluator."""
    from ropt.ensemble_evaluator import EnsembleEvaluator  # noqa: PLC0415
    from ropt.evaluator import EvaluatorResult  # noqa: PLC0415

    rng = rng_for(obs.seed, "c04e2e", case["i"])
    n = int(rng.integers(1, 13))
    fl, kind = FLAVOURS[int(rng.integers(5))] if rng.random() < 0.8 else FLAVOURS[6]
    failed = rng.random(n) < rng.choice([0.0, 0.3])
    if failed.all():
        failed[int(rng.integers(n))] = False
    grid = _grid(int((~failed).sum()), "quick")
    p = float(grid[int(rng.integers(len(grid)))])
    first = None
    if fl == "constraint" and rng.random() < 0.5:
        p0 = float(rng.choice([0.25, 0.5, 0.75, 1.0]))
        first = [{"method": "cvar-constraint", "options": {"sort": 0, "percentile": p0}},
                 {"method": "sort-constraint", "options": {"sort": 0, "first": 0, "last": n - 1}}][int(rng.integers(2))]
        obs.count("cvar.e2e_after_another_constraint_filter")
    cw = ens.gen_weights(rng, n) if n > 1 and rng.random() < 0.5 else None
    if cw is not None and 0.0 in cw:
        obs.count("cvar.e2e_with_zero_configured_weight")
    unused = int(rng.choice([0, 0, 1, 2]))
    if unused:
        obs.count("cvar.e2e_with_unreferenced_filters_in_front")
    cfg, meta = _config(n, fl, kind, p, rng, weights=cw, first_filter=first, unused_front=unused)
    st = {}

    def draw():
        st["ranked"] = np.round(rng.normal(size=n), 1) if rng.random() < 0.3 else rng.normal(size=n)
        st["other"] = rng.normal(size=n) * 10
        if first is None and rng.random() < 0.25:
            # an infinite value in a function the judged filter does not rank
            st["other"][int(rng.integers(n))] = rng.choice([np.inf, -np.inf])
            obs.count("cvar.e2e_with_an_infinite_value_in_an_unranked_function")

    draw()

    def evaluator(variables, context):
        assert variables.shape[0] == n
        obj = np.where(st["failed"], np.nan, st["ranked"] if fl == "objective" else st["other"]).reshape(n, 1)
        if fl == "objective_neg":
            obj = np.stack([st["other"], np.where(st["failed"], np.nan, st["ranked"])], axis=1)
        con = None
        if fl == "constraint":
            con = np.stack([st["other"] * 3, st["ranked"]], axis=1)
            con[st["failed"], 0] = np.nan
        return EvaluatorResult(objectives=obj, constraints=con)

    ee = EnsembleEvaluator(cfg, None, evaluator, _pm())
    # one evaluator (one filter object) judges a short history of evaluations: values and failures change between them
    for rnd in range(int(rng.integers(1, 4))):
        if rnd:
            draw()
            failed = rng.random(n) < rng.choice([0.0, 0.3])
            if failed.all():
                failed[int(rng.integers(n))] = False
            obs.count("cvar.e2e_later_evaluation_of_same_evaluator")
        st["failed"] = failed
        ranked, other = st["ranked"], st["other"]
        (res,) = ee.calculate(np.zeros(2), compute_functions=True, compute_gradients=False)
        bad = _badness(fl, kind, meta, ranked)
        obs.count("cvar.e2e")
        obs.nontrivial("e2e", case["i"])
        if res.functions is None:
            if first is not None and first["method"].startswith("sort") and cw is not None and not np.any(np.where(failed, 0.0, np.asarray(cw)) > 0):
                # the sort filter in front (full window) has no successful realization with a positive configured weight: too few
                obs.count("cvar.e2e_front_sort_filter_without_positive_weight")
                return
            obs.violation("e2e_no_functions", n=n, failed=failed)
            return
        isobj = fl in ("objective", "objective_neg")
        got = float(res.functions.objectives[{"objective": 0, "objective_neg": 1}[fl]] if isobj else res.functions.constraints[1])
        rows = res.realizations.objective_weights if isobj else res.realizations.constraint_weights
        if rows is None:
            obs.violation("e2e_no_filter_weights_reported", flavour=fl, kind=kind, percentile=p, filters=[f.method for f in cfg.realization_filters])
            return
        row = rows[0] if fl == "objective" else rows[1]
        if first is not None and first["method"].startswith("cvar"):
            for k, d in models.check_cvar_weights(rows[0], other * 3, failed, first["options"]["percentile"]):
                obs.violation("e2e_first_filter_" + k, percentile=first["options"]["percentile"], failed=failed, w=rows[0], **d)
                return
        for k, d in models.check_cvar_weights(row, bad, failed, p):
            obs.violation("e2e_" + k, flavour=fl, kind=kind, percentile=p, failed=failed, ranked=ranked, w=row, **d)
            return
        if bad is not None:
            # tail mean under the (already validated) reported weights: with tied badness but different values
            # (equality constraints on both sides of the target) the model's own tie order need not be ropt's
            rw = np.asarray(row, dtype=np.float64)
            want = float(np.dot(rw, np.where(failed, 0.0, ranked)) / rw.sum())
            ref, _ = models.cvar_tail_mean(ranked, bad, failed, p)
            if len(set(np.asarray(bad)[~failed].tolist())) == int((~failed).sum()):
                obs.count("cvar.e2e_untied")
                obs.check(abs(ref - want) <= 1e-10 * (1 + abs(want)), "e2e_tail_mean_model", ref=ref, want=want)
            obs.check(abs(got - want) <= 1e-10 * (1 + abs(want)), "e2e_tail_mean", got=got, want=want, percentile=p,
                      flavour=fl, kind=kind, failed=failed, ranked=ranked)
    obs.sample({"e2e": True, "n": n, "flavour": fl, "kind": kind, "p": p, "value": got})
