"""C15 - event streams are well formed and aborts latch the plan, at every abort point.

Crash-point enumeration: a fault-free run of a scenario fixes its number of events N and
evaluator calls M; then one run per event index k with the user abort raised at event k by
an observer, one per k with it raised by a recording handler, and one per evaluator call i
with the evaluator raising it.  Recorders: observers on every EventType and a recording
ResultHandler plug-in on every plan (strong references to every Event)."""
from __future__ import annotations

import os

import numpy as np

from vlib import ens
from vlib.build import rng_for

PROPERTY = "C15"
LEVEL = "fault_enumeration"
TECHNIQUE = "runtime monitoring with crash-point enumeration: user abort injected at every event index (by an observer, by a handler) and at every evaluator call of bounded plan runs; bracket automaton per step, exactly-once/ordering check of deliveries, abort-latch model"
LEVEL_TEXT = ("scenarios: single optimizer step, evaluator step, three-step sequential plan, nested plan (inner optimization per outer evaluation), each also with NaN failures / max_functions; "
              "every abort point of every scenario variant (about 1.5e3 runs quick, 3e4 thorough); stream shape, delivery multiset and order, exit code, plan.aborted, PlanAborted for later steps")
LEVEL_NOTE = "trusted: automaton and latch model in this file; the event at which a handler raises may reach fewer parties; event-raised aborts inside evaluator steps are recorded but not judged (outside the quantifier)"
ANCHOR_FILES = ["src/ropt/plan/_plan.py", "src/ropt/plan/_context.py", "src/ropt/plugins/plan/optimizer.py", "src/ropt/plugins/plan/evaluator.py", "src/ropt/optimization/_optimizer.py",
                "src/ropt/plan/_basic_optimizer.py"]
EXECUTION_COUNTERS = ["abort_runs.observer", "abort_runs.handler", "abort_runs.evaluator", "basic_optimizer_abort_runs"]   # executions of the oracle inside the cases (reported as coverage.evaluations)
RULE = ("case = (scenario variant, injector kind); inside: every abort index; a run is non-trivial if the abort was actually raised; distinct key = (case, index); "
        "monitor_counters: runs per injector, events and deliveries checked")
ASSUMPTIONS = ["abort = OptimizationAborted(USER_ABORT) raised by user code (observer, handler or evaluator), as BasicOptimizer.set_abort_callback does"]
REQUIRED = {"quick": {"abort_runs.observer": 400, "abort_runs.handler": 400, "abort_runs.evaluator": 150, "events_checked": 15000, "deliveries_checked": 60000,
                      "streams_checked": 2000, "latch_checked": 900, "later_steps_refused": 300, "nested_abort_runs": 200, "abort_runs_with_nested_plans_on_their_own_context": 200, "abort_runs_with_a_handler_added_after_an_earlier_nested_run": 60, "abort_runs_without_observers_for_the_start_of_an_evaluation": 120, "abort_runs_with_redirected_optimizer_output": 100, "nested_plan_served_another_outer_plan_before": 100, "three_level_abort_runs": 600, "plan_functions_refused_after_abort": 900, "further_step_tried_during_finish_event": 1200, "basic_optimizer_abort_runs": 24, "__nontrivial__": 900},
            "thorough": {"abort_runs.observer": 5000, "abort_runs.handler": 5000, "abort_runs.evaluator": 2000, "events_checked": 200000, "deliveries_checked": 1000000,
                         "streams_checked": 25000, "latch_checked": 12000, "later_steps_refused": 6000, "nested_abort_runs": 4000, "abort_runs_with_nested_plans_on_their_own_context": 3000, "abort_runs_with_a_handler_added_after_an_earlier_nested_run": 800, "abort_runs_without_observers_for_the_start_of_an_evaluation": 2500, "abort_runs_with_redirected_optimizer_output": 2500, "nested_plan_served_another_outer_plan_before": 1500, "three_level_abort_runs": 7000, "plan_functions_refused_after_abort": 10000, "further_step_tried_during_finish_event": 14000, "basic_optimizer_abort_runs": 200, "__nontrivial__": 12000}}
N = {"quick": 48, "thorough": 600}
SCENARIOS = ["optimizer", "evaluator", "sequential", "nested", "nested3"]


def cases(tier, seed):
    for i in range(N[tier]):
        for inj in ("observer", "handler", "evaluator"):
            yield {"i": i, "scenario": SCENARIOS[i % 5], "injector": inj}
    for i in range(40 if tier == "quick" else 400):
        yield {"i": i, "scenario": "basic", "injector": "callback"}


class World:
    """All recorders of one run."""

    def __init__(self):
        self.events = []        # distinct Event objects in order of first sighting (strong refs)
        self.index = {}         # id(event) -> position
        self.deliveries = []    # (event position, party)
        self.inject = None      # ("observer"|"handler", k)
        self.raised_at = None
        self.raiser = None
        self.probe = None           # callable: try to run a further step of the main plan -> "refused" | "ran" | repr(exception)
        self.probe_sources = ()
        self.probe_outcome = None
        self.abort_in_evaluator = False
        self.muted = False
        self.nested_own_context = False
        self.stray = 0          # calls of an observer registered on the context of a nested plan (counted, not judged)

    def count_stray(self):
        self.stray += 1

    def see(self, event, party, party_kind, first_of_kind):
        if self.muted:
            return
        pos = self.index.get(id(event))
        if pos is None:
            pos = len(self.events)
            self.events.append(event)
            self.index[id(event)] = pos
        self.deliveries.append((pos, party))
        if self.inject and self.raised_at is None and self.inject[0] == party_kind and self.inject[1] == pos and first_of_kind:
            from ropt.enums import OptimizerExitCode  # noqa: PLC0415
            from ropt.exceptions import OptimizationAborted  # noqa: PLC0415

            self.raised_at, self.raiser = pos, party
            raise OptimizationAborted(exit_code=OptimizerExitCode.USER_ABORT)
        # the abort has happened (at an earlier event, or inside the evaluator): while the finish event of the aborted step is
        # being delivered, a further step of that plan already refuses to run
        if (self.probe is not None and self.probe_outcome is None and party_kind == "observer" and first_of_kind
                and event.event_type.name == "FINISHED_OPTIMIZER_STEP" and event.source in self.probe_sources
                and ((self.raised_at is not None and self.raised_at != pos) or (self.abort_in_evaluator and self.abort_in_evaluator()))):
            self.probe_outcome = self.probe()


_WORLD = {"w": None}
_REGISTERED = {"done": False}


def _register(pm):
    from ropt.plugins.plan.base import PlanHandlerPlugin, ResultHandler  # noqa: PLC0415

    class Recorder(ResultHandler):
        def __init__(self, plan, *, tag="h", first=False):
            super().__init__(plan)
            self.tag, self.first = tag, first

        def handle_event(self, event):
            _WORLD["w"].see(event, self.tag, "handler", self.first)

    class RecorderPlugin(PlanHandlerPlugin):
        def create(self, name, plan, **kwargs):
            return Recorder(plan, **kwargs)

        def is_supported(self, method):
            return method.lower() == "recorder"

    pm.add_plugin("plan_handler", "verifrec", RecorderPlugin())


def _pm():
    pm = ens.plugin_manager()
    if not _REGISTERED["done"]:
        _register(pm)
        _REGISTERED["done"] = True
    return pm


def _spec(rng, nan=False, maxf=None, method="slsqp", V=2):
    R, P = int(rng.integers(1, 3)), V
    spec = {"V": V, "R": R, "P": P, "rweights": [1.0] * R, "oweights": [1.0], "n_con": 0, "x0": rng.uniform(-0.3, 0.3, size=V).tolist(), "seed": 3, "magnitudes": [0.01],
            "samplers": [{"method": "verif/design", "options": {"samples": np.eye(V).tolist()}}],
            "ensemble": {"kind": "quad", "a": (rng.normal(size=(R, 1, V)) * 0.3).tolist(), "b": rng.normal(size=(R, 1)).tolist(), "q": [1.0], "c": (rng.normal(size=(R, V)) * 0.3).tolist()},
            "nan": [], "rmin": 1,
            "optimizer": {"method": method, "max_iterations": 2, "options": {"maxiter": 2}, "speculative": bool(rng.random() < 0.4), "split_evaluations": bool(rng.random() < 0.3)}}
    if maxf:
        spec["optimizer"]["max_functions"] = maxf
    if rng.random() < 0.35:
        # the back-end's output is redirected to a file (an option that has nothing to do with events)
        spec["optimizer"]["stdout"] = ens.scratch_file("optimizer_output")
        spec["_redirected"] = True
    if nan:
        spec["nan"] = [{"call": int(rng.integers(0, 4)), "r": r, "p": -1, "col": 0} for r in range(R)]
        # with a threshold of zero an evaluation in which every realization failed still ends normally (FINISHED_EVALUATION)
        spec["rmin"] = int(rng.integers(0, 2))
    return spec


def build(scenario, rng, world, raise_at):
    """Returns (run function -> list of step outcomes, plans dict, step->plan map, observers list, evaluator)."""
    from ropt.enums import EventType  # noqa: PLC0415
    from ropt.exceptions import OptimizationAborted, PlanAborted  # noqa: PLC0415
    from ropt.plan import OptimizerContext, Plan  # noqa: PLC0415
    from ropt.results import FunctionResults  # noqa: PLC0415

    variant = int(rng.integers(0, 3))
    spec = _spec(rng, nan=(variant == 1), maxf=(int(rng.integers(2, 5)) if variant == 2 else None), V=3 if scenario == "nested3" else 2)
    ev = ens.RecordingEvaluator(spec, raise_at=raise_at)
    ctx = OptimizerContext(evaluator=ev, plugin_manager=_pm())
    observers = []
    # observers need not be connected to every event type (a results callback, say, listens to FINISHED_EVALUATION only):
    # the handlers of the plans get every event all the same
    unobserved = set()
    if rng.random() < 0.35:
        unobserved = {EventType.START_EVALUATION} | ({EventType.START_OPTIMIZER_STEP, EventType.START_EVALUATOR_STEP} if rng.random() < 0.4 else set())
        world.unobserved_types = True
    for et in EventType:
        if et in unobserved:
            continue
        for n in range(2):
            tag = f"obs:{et.name}:{n}"
            ctx.add_observer(et, lambda e, tag=tag, n=n: world.see(e, tag, "observer", n == 0))
            observers.append((et, tag))
    plans, step_plan, steps = {}, {}, []
    # nested plans may be built on a context of their own (another evaluator object, say): the events of their steps still travel
    # up to the plan that runs them and reach the observers of that plan's context
    own_context = bool(rng.random() < 0.5)

    def mkplan(name, parent=None, recorders=2):
        if parent is not None and own_context:
            own = OptimizerContext(evaluator=ev, plugin_manager=_pm())
            own.add_observer(EventType.START_EVALUATION, lambda _e: world.count_stray())
            plan = Plan(own)
            world.nested_own_context = True
        else:
            plan = Plan(ctx)
        plans[name] = {"plan": plan, "handlers": [], "parent": parent}
        for n in range(recorders):
            tag = f"h:{name}:{n}"
            plan.add_handler("verifrec/recorder", tag=tag, first=(n == 0))
            plans[name]["handlers"].append(tag)
        return plan

    main = mkplan("main")
    cfgd = ens.make_config_dict(spec)
    if scenario == "optimizer":
        s = main.add_step("optimizer")
        step_plan[s] = "main"
        steps = [("optimizer", s, {"config": cfgd})]
    elif scenario == "evaluator":
        s = main.add_step("evaluator")
        step_plan[s] = "main"
        steps = [("evaluator", s, {"config": cfgd})]
    elif scenario == "sequential":
        s1, s2, s3 = main.add_step("optimizer"), main.add_step("evaluator"), main.add_step("optimizer")
        for s in (s1, s2, s3):
            step_plan[s] = "main"
        spec2 = dict(spec, x0=(np.asarray(spec["x0"]) + 0.1).tolist(), nan=[])
        steps = [("optimizer", s1, {"config": cfgd}), ("evaluator", s2, {"config": cfgd}), ("optimizer", s3, {"config": ens.make_config_dict(spec2)})]
    elif scenario == "nested3":
        # three levels; the plan in the middle has no handlers of its own (the tracker of its step lives in the outer plan)
        middle = mkplan("middle", parent="main", recorders=0)
        inner = mkplan("inner", parent="middle")
        si, sm, so = inner.add_step("optimizer"), middle.add_step("optimizer"), main.add_step("optimizer")
        step_plan[si], step_plan[sm], step_plan[so] = "inner", "middle", "main"
        small = {"method": "slsqp", "max_iterations": 1, "options": {"maxiter": 1}, "max_functions": 2}
        icfg = ens.make_config_dict(dict(spec, mask=[False, False, True], optimizer=small, nan=[]))
        mcfg = ens.make_config_dict(dict(spec, mask=[False, True, False], optimizer=small, nan=[]))
        tracker_i = inner.add_handler("tracker", sources={si})
        plans["inner"]["extra_handlers"] = 1
        tracker_m = main.add_handler("tracker", sources={sm})
        plans["main"]["extra_handlers"] = 1

        def inner_fn(plan, variables):
            plan.set(tracker_i, "results", None)
            plan.run_step(si, config=icfg, variables=variables)
            res = plan.get(tracker_i, "results")
            return res if isinstance(res, FunctionResults) else None

        def middle_fn(plan, variables):
            main.set(tracker_m, "results", None)
            plan.run_step(sm, config=mcfg, variables=variables, nested_optimization=inner)
            res = main.get(tracker_m, "results")
            return res if isinstance(res, FunctionResults) else None

        inner.add_function(inner_fn)
        middle.add_function(middle_fn)
        ospec = dict(spec, mask=[True, False, False], optimizer=dict(spec["optimizer"], max_functions=2))
        s2 = main.add_step("evaluator")
        step_plan[s2] = "main"
        steps = [("optimizer", so, {"config": ens.make_config_dict(ospec), "nested_optimization": middle}), ("evaluator", s2, {"config": cfgd})]
    else:
        inner = mkplan("inner", parent="main")
        si = inner.add_step("optimizer")
        step_plan[si] = "inner"
        ispec = dict(spec)
        ispec["mask"] = [False, True]
        ispec["optimizer"] = {"method": "slsqp", "max_iterations": 1, "options": {"maxiter": 1}, "max_functions": 2}
        ispec["nan"] = []
        icfg = ens.make_config_dict(ispec)
        tracker = inner.add_handler("tracker", sources={si})
        plans["inner"]["extra_handlers"] = 1

        def inner_fn(plan, variables):
            plan.set(tracker, "results", None)
            plan.run_step(si, config=icfg, variables=variables)
            res = plan.get(tracker, "results")
            return res if isinstance(res, FunctionResults) else None

        inner.add_function(inner_fn)
        ospec = dict(spec)
        ospec["mask"] = [True, False]
        ospec["optimizer"] = dict(spec["optimizer"], max_functions=3)
        if rng.random() < 0.5:
            # the nested plan object has served another outer plan before: its events now go to the handlers of the plan that
            # runs it now, and to nobody else's
            decoy = Plan(ctx)
            for n in range(2):
                decoy.add_handler("verifrec/recorder", tag=f"h:decoy:{n}", first=(n == 0))
            sd = decoy.add_step("optimizer")
            saved, ev.raise_at, world.muted = ev.raise_at, {}, True
            try:
                decoy.run_step(sd, config=ens.make_config_dict(dict(ospec, nan=[])), nested_optimization=inner)
            finally:
                ev.raise_at, world.muted = saved, False
                del ev.calls[:]
            world.decoy_used = True
        if rng.random() < 0.5:
            # the outer plan has already run the nested plan once (nobody listening), and gets another handler afterwards: from
            # then on that handler is one of the handlers of an ancestor of the nested plan
            sw = main.add_step("optimizer")
            saved, ev.raise_at, world.muted = ev.raise_at, {}, True
            try:
                main.run_step(sw, config=ens.make_config_dict(dict(ospec, nan=[])), nested_optimization=inner)
            finally:
                ev.raise_at, world.muted = saved, False
                del ev.calls[:]
            main.add_handler("verifrec/recorder", tag="h:main:late", first=False)
            plans["main"]["handlers"].append("h:main:late")
            world.late_handler = True
        so = main.add_step("optimizer")
        step_plan[so] = "main"
        s2 = main.add_step("evaluator")
        step_plan[s2] = "main"
        steps = [("optimizer", so, {"config": ens.make_config_dict(ospec), "nested_optimization": inner}), ("evaluator", s2, {"config": cfgd})]

    spare = main.add_step("evaluator")
    step_plan[spare] = "main"

    def probe():
        try:
            main.run_step(spare, config=cfgd)
        except PlanAborted:
            return "refused"
        except Exception as exc:  # noqa: BLE001
            return repr(exc)
        return "ran"

    world.probe = probe
    world.probe_sources = {sid for kind, sid, _ in steps if kind == "optimizer"}
    world.abort_in_evaluator = (lambda: len(ev.calls) > min(raise_at)) if raise_at else None      # the evaluator has raised by now

    def run():
        out = []
        import warnings  # noqa: PLC0415

        for kind, sid, kw in steps:
            try:
                with warnings.catch_warnings():
                    warnings.simplefilter("ignore")
                    out.append(("code", int(main.run_step(sid, **kw)), sid, kind))
            except PlanAborted:
                out.append(("PlanAborted", None, sid, kind))
            except OptimizationAborted as exc:
                out.append(("escaped_abort", int(exc.exit_code), sid, kind))
            except Exception as exc:  # noqa: BLE001
                out.append(("exception", repr(exc), sid, kind))
        return out

    return run, plans, step_plan, observers, ev, steps


def expected_parties(plans, step_plan, observers, event):
    """Handlers of the emitting plan, then of its ancestors, then the observers of that event type (registration order)."""
    name = step_plan.get(event.source)
    seq = []
    while name is not None:
        seq += plans[name]["handlers"]
        name = plans[name]["parent"]
    seq += [tag for et, tag in observers if et == event.event_type]
    return seq


def check_run(obs, world, outcomes, plans, step_plan, observers, steps, tag, injected, scenario):
    from ropt.enums import EventType as E, OptimizerExitCode as X  # noqa: PLC0415,N817

    ok = True
    # ---- deliveries: exactly once, handlers (inner first) before observers
    per_event = {}
    for pos, party in world.deliveries:
        per_event.setdefault(pos, []).append(party)
    for pos, event in enumerate(world.events):
        obs.count("events_checked")
        want = expected_parties(plans, step_plan, observers, event)
        got = per_event.get(pos, [])
        obs.count("deliveries_checked", len(got))
        if world.raised_at == pos:
            # the raiser is the last party reached; everything before it must be the expected prefix
            okp = got == want[: len(got)] and got and got[-1] == world.raiser
        else:
            okp = got == want
        if not okp:
            obs.violation("event_delivery", event=event.event_type.name, position=pos, got=got, want=want, raised_here=world.raised_at == pos, **tag)
            return False
    # ---- bracket automaton per emitting step
    streams = {}
    for pos, event in enumerate(world.events):
        streams.setdefault(event.source, []).append((event.event_type, pos))
    raise_pos = world.raised_at
    for sid, stream in streams.items():
        obs.count("streams_checked")
        names = [e.name for e, _ in stream]
        kind = "OPTIMIZER" if names[0].endswith("OPTIMIZER_STEP") or "OPTIMIZER" in names[0] else "EVALUATOR"
        # a step may run several times (inner step of a nested plan): split into runs at START_x_STEP
        runs, cur = [], None
        for nm, pos in [(e.name, p) for e, p in stream]:
            if nm.startswith("START_") and nm.endswith("_STEP"):
                cur = []
                runs.append(cur)
            if cur is None:
                obs.violation("stream_does_not_start_with_step_start", stream=names, **tag)
                return False
            cur.append((nm, pos))
        for ri, r in enumerate(runs):
            nm = [n for n, _ in r]
            if not nm[-1].startswith("FINISHED_") or not nm[-1].endswith("_STEP"):
                obs.violation("step_without_finished_event", stream=nm, injected=injected, **tag)
                return False
            body = r[1:-1]
            open_start = None
            for k, (n, pos) in enumerate(body):
                if n == "START_EVALUATION":
                    if open_start is not None:
                        # previous START unmatched: allowed only if the abort/failure arose at or inside that evaluation
                        if not _unmatched_allowed(world, open_start, pos, injected):
                            obs.violation("start_evaluation_unmatched", stream=nm, injected=injected, **tag)
                            return False
                    open_start = pos
                elif n == "FINISHED_EVALUATION":
                    if open_start is None:
                        obs.violation("finished_evaluation_without_start", stream=nm, injected=injected, **tag)
                        return False
                    open_start = None
                else:
                    obs.violation("foreign_event_inside_step", stream=nm, **tag)
                    return False
            if open_start is not None and not _unmatched_allowed(world, open_start, r[-1][1], injected):
                obs.violation("start_evaluation_unmatched", stream=nm, injected=injected, **tag)
                return False
    # ---- abort latch
    if injected is not None and (world.raised_at is not None or injected[0] == "evaluator"):
        aborted_step = None
        if world.raised_at is not None:
            aborted_step = world.events[world.raised_at].source
            raised_type = world.events[world.raised_at].event_type.name
        else:
            raised_type = "inside evaluator"
        judged = True
        main = plans["main"]["plan"]
        # which top-level step was running?  the first outcome that is not a plain normal code
        idx = None
        for n, o in enumerate(outcomes):
            if o[0] != "code" or o[1] == int(X.USER_ABORT):
                idx = n
                break
        if world.raised_at is not None and aborted_step is not None:
            in_eval_step = any(k == "evaluator" and s == aborted_step for k, s, _ in steps)
            if in_eval_step and injected[0] in ("observer", "handler"):
                obs.count("not_judged.event_abort_in_evaluator_step")
                judged = False
        if judged:
            obs.count("latch_checked")
            if idx is None:
                obs.violation("abort_not_reported", outcomes=[o[:2] for o in outcomes], raised_at=raised_type, **tag)
                return False
            o = outcomes[idx]
            if o[0] != "code" or o[1] != int(X.USER_ABORT):
                obs.violation("abort_step_outcome", outcome=o[:2], raised_at=raised_type, **tag)
                return False
            if not main.aborted:
                obs.violation("plan_not_marked_aborted", raised_at=raised_type, **tag)
                return False
            if world.probe_outcome is not None:
                obs.count("further_step_tried_during_finish_event")
                if world.probe_outcome != "refused":
                    obs.violation("further_step_ran_while_the_finish_event_of_the_aborted_step_was_delivered", outcome=world.probe_outcome,
                                  raised_at=raised_type, **tag)
                    return False
            if "inner" in plans and aborted_step is not None and step_plan.get(aborted_step) == "inner" and not plans["inner"]["plan"].aborted:
                obs.violation("inner_plan_not_marked_aborted", raised_at=raised_type, **tag)
                return False
            # the plan of the step at which the abort arose and every ancestor of it is marked aborted
            name = step_plan.get(aborted_step) if aborted_step is not None else None
            while name is not None:
                obs.count("plans_on_the_abort_path_checked")
                if not plans[name]["plan"].aborted:
                    obs.violation("plan_on_the_abort_path_not_marked_aborted", plan=name, raised_at=raised_type, **tag)
                    return False
                name = plans[name]["parent"]
            # a plan on the abort path that runs its steps through its function refuses that as well, and emits nothing
            from ropt.exceptions import PlanAborted  # noqa: PLC0415

            name = step_plan.get(aborted_step) if aborted_step is not None else None
            while name is not None:
                pl = plans[name]["plan"]
                if pl.has_function():
                    n_before = len(world.events)
                    try:
                        pl.run_function(np.zeros(3 if "middle" in plans else 2))
                        refused = False
                    except PlanAborted:
                        refused = True
                    except Exception as exc:  # noqa: BLE001
                        refused = repr(exc)
                    obs.count("plan_functions_refused_after_abort")
                    if refused is not True or len(world.events) != n_before:
                        obs.violation("plan_function_ran_after_abort", plan=name, outcome=refused, new_events=len(world.events) - n_before, raised_at=raised_type, **tag)
                        return False
                name = plans[name]["parent"]
            for later in outcomes[idx + 1:]:
                obs.count("later_steps_refused")
                if later[0] != "PlanAborted":
                    obs.violation("later_step_ran_after_abort", outcome=later[:2], raised_at=raised_type, **tag)
                    return False
    else:
        for o in outcomes:
            if o[0] != "code":
                obs.violation("unexpected_outcome_without_abort", outcome=o[:2], **tag)
                return False
    return ok


def _unmatched_allowed(world, start_pos, next_pos, injected):
    """An unmatched START_EVALUATION is fine only if the abort arose at that event or inside that evaluation."""
    if injected is None:
        return False
    if injected[0] == "evaluator":
        return True          # judged by position below: the evaluator raised inside this evaluation (it is the last one)
    return world.raised_at is not None and start_pos <= world.raised_at < next_pos + 1 and world.raised_at == start_pos


def run_case(case, obs):
    if case["scenario"] == "basic":
        return _basic(case, obs)
    from ropt.enums import OptimizerExitCode as X  # noqa: PLC0415,N817
    from ropt.exceptions import OptimizationAborted  # noqa: PLC0415

    scenario, inj = case["scenario"], case["injector"]
    seedkey = ("c15", case["i"])
    # fault-free run fixes the counts
    w0 = World()
    _WORLD["w"] = w0
    run, plans, step_plan, observers, ev, steps = build(scenario, rng_for(obs.seed, *seedkey), w0, None)
    out0 = run()
    tag0 = {"scenario": scenario, "injector": None, "index": None}
    if not check_run(obs, w0, out0, plans, step_plan, observers, steps, tag0, None, scenario):
        return
    n_events, n_calls = len(w0.events), len(ev.calls)
    obs.feature("scenario." + scenario)
    count = n_calls if inj == "evaluator" else n_events
    for k in range(count):
        w = World()
        _WORLD["w"] = w
        raise_at = None
        if inj == "evaluator":
            raise_at = {k: OptimizationAborted(exit_code=X.USER_ABORT)}
        else:
            w.inject = (inj, k)
        run, plans, step_plan, observers, ev, steps = build(scenario, rng_for(obs.seed, *seedkey), w, raise_at)
        outcomes = run()
        reached = (len(ev.calls) > k) if inj == "evaluator" else (w.raised_at is not None)
        if not reached:
            obs.count("abort_point_not_reached")
            continue
        if inj != "evaluator":
            src = w.events[w.raised_at].source
            if any(kd == "evaluator" and sid == src for kd, sid, _ in steps):
                obs.count("not_judged.event_abort_in_evaluator_step")
                continue
        obs.count("abort_runs." + inj)
        if scenario == "nested":
            obs.count("nested_abort_runs")
            if getattr(w, "decoy_used", False):
                obs.count("nested_plan_served_another_outer_plan_before")
        if scenario == "nested3":
            obs.count("three_level_abort_runs")
        if any(isinstance(kw.get("config"), dict) and (kw["config"].get("optimizer") or {}).get("stdout") for _k, _s, kw in steps):
            obs.count("abort_runs_with_redirected_optimizer_output")
        if getattr(w, "unobserved_types", False):
            obs.count("abort_runs_without_observers_for_the_start_of_an_evaluation")
        if getattr(w, "late_handler", False):
            obs.count("abort_runs_with_a_handler_added_after_an_earlier_nested_run")
        if w.nested_own_context:
            obs.count("abort_runs_with_nested_plans_on_their_own_context")
            obs.count("observer_calls_on_the_context_of_a_nested_plan", w.stray)
        obs.nontrivial(case["i"], scenario, inj, k)
        tag = {"scenario": scenario, "injector": inj, "index": k}
        check_run(obs, w, outcomes, plans, step_plan, observers, steps, tag, (inj, k), scenario)
    obs.sample({"scenario": scenario, "injector": inj, "fault_free_events": [e.event_type.name for e in w0.events][:12], "events": n_events, "evaluator_calls": n_calls})


def _basic(case, obs):
    """BasicOptimizer.set_abort_callback: abort at the k-th evaluation -> USER_ABORT."""
    from ropt.enums import OptimizerExitCode as X  # noqa: PLC0415,N817
    from ropt.plan import BasicOptimizer  # noqa: PLC0415

    rng = rng_for(obs.seed, "c15b", case["i"])
    spec = _spec(rng)
    spec["samplers"] = [{"method": "norm"}]
    ev0 = ens.RecordingEvaluator(spec)
    n = [0]
    BasicOptimizer(ens.make_config_dict(spec), ev0).set_abort_callback(lambda: (n.__setitem__(0, n[0] + 1), False)[1]).run()
    total = n[0]
    k = int(rng.integers(1, total + 1))
    n2 = [0]
    ev = ens.RecordingEvaluator(spec)

    def cb():
        n2[0] += 1
        return n2[0] == k

    opt = BasicOptimizer(ens.make_config_dict(spec), ev).set_abort_callback(cb)
    opt.run()
    obs.count("basic_optimizer_abort_runs")
    obs.nontrivial("basic", case["i"])
    obs.check(opt.exit_code == X.USER_ABORT, "basic_optimizer_abort_exit_code", got=int(opt.exit_code), abort_at=k, of=total)
    obs.check(len(ev.calls) < len(ev0.calls) or k == total, "basic_optimizer_kept_evaluating_after_abort", calls=len(ev.calls), unaborted=len(ev0.calls))
