"""C18 - validated configurations are canonical, frozen and stable under re-validation.

Boundary: EnOptConfig.model_validate on generated dictionaries (with and without transforms
in the validation context); a walker tries to mutate every attribute and array reachable
from the validated object; dumps (dict and JSON) are re-validated."""
from __future__ import annotations

import json

import numpy as np

from vlib.build import rng_for
from vlib.transforms import make_transforms

PROPERTY = "C18"
LEVEL = "exploration"
TECHNIQUE = "runtime monitoring: generated valid/invalid configuration dictionaries through the real validator; canonical-form model; mutation walker over every reachable model attribute and ndarray (incl. base chain); dump/JSON re-validation compared field by field"
LEVEL_TEXT = ("1.5e3 (quick) / 4e4 (thorough) generated dictionaries (all perturbation/boundary types, linear/non-linear constraints, filters, estimators, samplers, optimizer options, transforms) "
              "plus invalid mutations that must be rejected; every reachable attribute/array attacked; three re-validation routes compared")
LEVEL_NOTE = "trusted: the canonical-form model in this file; plain dict option bags are not configuration objects and need not be frozen; dumped forms are re-validated without a transform context"
ANCHOR_FILES = ["src/ropt/config/utils.py", "src/ropt/config/validated_types.py", "src/ropt/config/enopt/_enopt_config.py", "src/ropt/config/enopt/_variables_config.py",
                "src/ropt/config/enopt/_gradient_config.py", "src/ropt/config/enopt/_linear_constraints_config.py", "src/ropt/config/enopt/_nonlinear_constraints_config.py",
                "src/ropt/config/enopt/_optimizer_config.py", "src/ropt/config/enopt/_realizations_config.py", "src/ropt/config/enopt/_objective_functions_config.py"]
RULE = ("case = one generated dictionary (valid, or valid + one invalidating mutation); non-trivial if validation was attempted and judged; distinct key = case index; "
        "monitor_counters: attributes and arrays attacked, fields compared after re-validation")
ASSUMPTIONS = ["filter/estimator/sampler index maps are generated at full length (their broadcasting is not part of the statement)"]
REQUIRED = {"quick": {"attrs_attacked": 20000, "arrays_attacked": 9000, "revalidate_fields_compared": 20000, "rejections_checked": 217, "canonical_checked": 682, "plain_settings_compared": 800, "with_negligible_weights": 50, "with_mask_given_as_integers": 40, "section_objects_compared_after_use": 3500, "with_nearly_normalized_weights": 100, "with_relative_perturbations": 144, "with_transform_context": 200, "with_negative_objective_weight": 100, "section_objects_reused": 600, "__nontrivial__": 900},
            "thorough": {"attrs_attacked": 500000, "arrays_attacked": 241877, "revalidate_fields_compared": 500000, "rejections_checked": 5977, "canonical_checked": 18022, "plain_settings_compared": 20000, "with_negligible_weights": 1500, "with_mask_given_as_integers": 1200, "section_objects_compared_after_use": 90000, "with_nearly_normalized_weights": 2500, "with_relative_perturbations": 4147, "with_transform_context": 5000, "section_objects_reused": 15000, "__nontrivial__": 24000}}
N = {"quick": 1500, "thorough": 40000}


def cases(tier, seed):
    for i in range(N[tier]):
        yield {"i": i}


def gen_dict(rng):
    V = int(rng.integers(1, 6))
    R = int(rng.integers(1, 6))
    no, nc, nl = int(rng.integers(1, 4)), int(rng.integers(0, 3)), int(rng.integers(0, 3))
    P = int(rng.integers(1, 7))
    lb = np.where(rng.random(V) < 0.3, -np.inf, rng.uniform(-3, -0.5, size=V))
    ub = np.where(rng.random(V) < 0.3, np.inf, rng.uniform(0.5, 3, size=V))
    meta = {"V": V, "R": R, "P": P, "no": no, "nc": nc, "nl": nl}
    var = {"initial_values": rng.uniform(-0.4, 0.4, size=V).tolist()}
    form = rng.choice(["full", "scalar", "none"])
    if form == "full":
        var["lower_bounds"], var["upper_bounds"] = lb.tolist(), ub.tolist()
    elif form == "scalar":
        var["lower_bounds"], var["upper_bounds"] = -2.0, [2.5]
        lb, ub = np.full(V, -2.0), np.full(V, 2.5)
    else:
        lb, ub = np.full(V, -np.inf), np.full(V, np.inf)
    if rng.random() < 0.4:
        var["mask"] = (rng.random(V) < 0.7).tolist() if rng.random() < 0.7 else True
    if rng.random() < 0.3:
        var["types"] = rng.integers(1, 3, size=V).tolist() if rng.random() < 0.7 else 1
    rw = rng.integers(1, 9, size=R).astype(float)
    if R > 1 and rng.random() < 0.3:
        rw[int(rng.integers(R))] = 0.0
        if rw.sum() == 0:
            rw[0] = 1.0
    ow = rng.integers(1, 9, size=no).astype(float) * float(rng.choice([1.0, 0.01, 100.0]))
    if no > 1 and rng.random() < 0.35:
        # a maximised objective enters with a negative weight; the sum stays positive and the weights still sum to one
        j = int(rng.integers(no))
        ow[j] = -0.5 * ow[j]
        if ow.sum() <= 0.1 * np.abs(ow).sum():
            ow[j] = -0.1 * abs(ow[j])
    if rng.random() < 0.2:
        # weights as a user types them: nearly normalized (six decimals), the sum is one only after validation
        if R > 1:
            rw = np.round(rw / rw.sum(), 6)
            if rw.sum() == 1.0:
                rw[int(np.argmax(rw))] += 4e-6
        if no > 1 and np.all(ow > 0):
            ow = np.round(ow / ow.sum(), 6)
            if ow.sum() == 1.0:
                ow[int(np.argmax(ow))] -= 3e-6
        meta["nearly_normalized_weights"] = True
    elif rng.random() < 0.15:
        # a weight that is negligible but not zero (a realization / objective that is kept evaluated without counting), or
        # weights many orders of magnitude apart: ratios are kept, nothing non-zero becomes zero
        if R > 1:
            k = int(np.argmin(np.where(rw > 0, rw, np.inf))) if np.count_nonzero(rw > 0) > 1 else None
            if k is not None:
                rw[k] *= float(rng.choice([1e-17, 1e-20, 1e-13]))
        if no > 1 and np.all(ow > 0):
            ow[int(rng.integers(no))] *= float(rng.choice([1e-17, 1e-14]))
        meta["negligible_weights"] = True
    if var.get("mask") is not None and var["mask"] is not True and rng.random() < 0.3:
        # flags written as 0/1 integers are flags
        var["mask"] = [int(b) for b in var["mask"]]
        meta["mask_as_integers"] = True
    cfg = {"variables": var,
           "realizations": {"weights": rw.tolist()},
           "objectives": {"weights": ow.tolist()}}
    r = rng.random()
    if r < 0.3:
        cfg["realizations"]["realization_min_success"] = int(rng.integers(0, R + 4))
    meta["rw"], meta["ow"] = rw, ow
    meta["negative_objective_weight"] = bool(np.any(ow < 0))
    grad = {"number_of_perturbations": P}
    if rng.random() < 0.5:
        grad["perturbation_min_success"] = int(rng.integers(1, P + 4))
    finite = np.isfinite(lb) & np.isfinite(ub)
    r = rng.random()
    if r < 0.35:
        pt = np.where(finite & (rng.random(V) < 0.6), 2, 1)
        grad["perturbation_types"] = pt.tolist()
        grad["perturbation_magnitudes"] = rng.uniform(0.01, 0.4, size=V).tolist()
    elif r < 0.5 and finite.all():
        grad["perturbation_types"] = 2
        grad["perturbation_magnitudes"] = 0.1
    elif r < 0.8:
        grad["perturbation_magnitudes"] = float(rng.uniform(0.001, 0.1)) if rng.random() < 0.5 else rng.uniform(0.001, 0.1, size=V).tolist()
    if rng.random() < 0.5:
        grad["boundary_types"] = rng.integers(1, 4, size=V).tolist() if rng.random() < 0.7 else int(rng.integers(1, 4))
    if rng.random() < 0.3:
        grad["seed"] = int(rng.integers(0, 1000)) if rng.random() < 0.5 else [int(x) for x in rng.integers(0, 1000, size=2)]
    if rng.random() < 0.2:
        grad["merge_realizations"] = True
    ns = int(rng.choice([1, 2]))
    if rng.random() < 0.4:
        cfg["samplers"] = [{"method": str(rng.choice(["norm", "sobol", "scipy/uniform"])), "shared": bool(rng.random() < 0.5)} for _ in range(ns)]
        if ns > 1:
            grad["samplers"] = rng.integers(0, ns, size=V).tolist()
    cfg["gradient"] = grad
    if nc:
        clo = np.where(rng.random(nc) < 0.4, -np.inf, rng.normal(size=nc))
        cfg["nonlinear_constraints"] = {"lower_bounds": clo.tolist(), "upper_bounds": (np.where(np.isfinite(clo), clo, 0.0) + rng.uniform(0, 2, size=nc)).tolist()}
        if rng.random() < 0.3:
            cfg["nonlinear_constraints"] = {"lower_bounds": 0.0, "upper_bounds": [1.0] * nc}
    if nl:
        A = np.round(rng.normal(size=(nl, V)), 2)
        A[np.all(A == 0, axis=1)] = 1.0
        cfg["linear_constraints"] = {"coefficients": A.tolist(), "lower_bounds": (-np.abs(rng.normal(size=nl)) - 0.1).tolist() if rng.random() < 0.7 else -1.0,
                                     "upper_bounds": (np.abs(rng.normal(size=nl)) + 0.1).tolist() if rng.random() < 0.7 else np.inf}
    if rng.random() < 0.4 and not grad.get("merge_realizations"):
        cfg["function_estimators"] = [{"method": "mean"}, {"method": "stddev"}]
        cfg["objectives"]["function_estimators"] = rng.integers(0, 2, size=no).tolist()
        if nc:
            cfg["nonlinear_constraints"]["function_estimators"] = rng.integers(0, 2, size=nc).tolist()
    if rng.random() < 0.4:
        cfg["realization_filters"] = [{"method": "cvar-objective", "options": {"sort": [0], "percentile": 0.5}},
                                      {"method": "sort-objective", "options": {"sort": [0], "first": 0, "last": R - 1}}]
        cfg["objectives"]["realization_filters"] = rng.integers(-1, 2, size=no).tolist()
        if nc:
            cfg["nonlinear_constraints"]["realization_filters"] = rng.integers(-1, 2, size=nc).tolist()
    opt = {}
    if rng.random() < 0.5:
        opt["method"] = str(rng.choice(["slsqp", "scipy/slsqp", "differential_evolution", "external/slsqp"]))
    if rng.random() < 0.4:
        opt["max_iterations"] = int(rng.integers(1, 50))
    if rng.random() < 0.3:
        opt["max_functions"] = int(rng.integers(1, 50))
    if rng.random() < 0.3:
        opt["options"] = [{"ftol": 1e-6, "nested": {"a": [1, 2]}}, {}, ["opt1", "opt2"]][int(rng.integers(3))]
    if rng.random() < 0.3:
        opt["tolerance"] = 1e-6
    for flag in ("speculative", "split_evaluations", "parallel"):
        if rng.random() < 0.2:
            opt[flag] = True
    if opt:
        cfg["optimizer"] = opt
    meta["lb"], meta["ub"] = lb, ub
    return cfg, meta


INVALID = ["lb_gt_ub", "bounds_length", "weights_nonpositive", "lin_columns", "nl_lb_gt_ub", "relative_infinite", "magnitudes_length", "lin_lb_gt_ub", "btypes_length"]


def invalidate(cfg, meta, kind, rng):
    V = meta["V"]
    c = json.loads(json.dumps(cfg, default=_enc))
    c = _dec(c)
    if kind == "lb_gt_ub":
        c["variables"]["lower_bounds"] = [5.0] * V
        c["variables"]["upper_bounds"] = [4.0] * V
        c["gradient"].pop("perturbation_types", None)
    elif kind == "bounds_length":
        c["variables"]["lower_bounds"] = [-9.0] * (V + 2)
    elif kind == "weights_nonpositive":
        c["realizations"]["weights"] = [0.0] * meta["R"]
    elif kind == "lin_columns":
        c["linear_constraints"] = {"coefficients": [[1.0] * (V + 1)], "lower_bounds": [0.0], "upper_bounds": [1.0]}
    elif kind == "nl_lb_gt_ub":
        c["nonlinear_constraints"] = {"lower_bounds": [1.0], "upper_bounds": [0.0]}
    elif kind == "relative_infinite":
        c["variables"]["upper_bounds"] = [np.inf] * V
        c["gradient"]["perturbation_types"] = [2] * V
    elif kind == "magnitudes_length":
        c["gradient"]["perturbation_magnitudes"] = [0.1] * (V + 2)
        c["gradient"].pop("perturbation_types", None)
    elif kind == "lin_lb_gt_ub":
        c["linear_constraints"] = {"coefficients": [[1.0] * V], "lower_bounds": [2.0], "upper_bounds": [1.0]}
    elif kind == "btypes_length":
        c["gradient"]["boundary_types"] = [1] * (V + 2)
    return c


def _enc(o):
    if isinstance(o, np.ndarray):
        return o.tolist()
    raise TypeError


def _dec(o):
    return o


# ------------------------------------------------------------------ walkers


def walk(obj, path="cfg", seen=None):
    """Yield (path, kind, owner, key, value) for every model attribute / array / tuple element reachable."""
    from pydantic import BaseModel  # noqa: PLC0415

    seen = set() if seen is None else seen
    if id(obj) in seen:
        return
    seen.add(id(obj))
    if isinstance(obj, BaseModel):
        for name in type(obj).model_fields:
            val = getattr(obj, name)
            yield path + "." + name, "attr", obj, name, val
            yield from walk(val, path + "." + name, seen)
    elif isinstance(obj, np.ndarray):
        yield path, "array", None, None, obj
    elif isinstance(obj, (tuple, list)):
        for i, v in enumerate(obj):
            yield from walk(v, f"{path}[{i}]", seen)


def attack(obs, cfg):
    from pydantic import BaseModel  # noqa: PLC0415

    for path, kind, owner, key, val in list(walk(cfg)):
        if kind == "attr":
            obs.count("attrs_attacked")
            before = val
            try:
                setattr(owner, key, val)
                ok = False
            except Exception:  # noqa: BLE001
                ok = True
            if not ok:
                obs.violation("attribute_assignment_succeeded", path=path, type=type(owner).__name__)
                return False
            if isinstance(owner, BaseModel) and getattr(owner, key) is not before:
                obs.violation("attribute_changed", path=path)
                return False
        else:
            obs.count("arrays_attacked")
            a = val
            chain = []
            while isinstance(a, np.ndarray):
                chain.append(a)
                a = a.base
            for depth, arr in enumerate(chain):
                snapshot = arr.copy()
                try:
                    if arr.ndim == 0:
                        arr[...] = arr
                    else:
                        arr.flat[0] = arr.flat[0]
                    wrote = True
                except ValueError:
                    wrote = False
                if wrote or arr.flags.writeable:
                    obs.violation("array_writable", path=path, base_depth=depth, dtype=str(arr.dtype), shape=list(arr.shape))
                    return False
                assert np.array_equal(snapshot, arr, equal_nan=True)
    return True


def same(obs, a, b, path, route):
    """Recursive equivalence of two validated configurations."""
    from pydantic import BaseModel  # noqa: PLC0415

    if isinstance(a, BaseModel):
        if type(a) is not type(b):
            obs.violation("revalidate_type", path=path, route=route)
            return False
        return all(same(obs, getattr(a, n), getattr(b, n), path + "." + n, route) for n in type(a).model_fields)
    obs.count("revalidate_fields_compared")
    if isinstance(a, np.ndarray) or isinstance(b, np.ndarray):
        a, b = np.asarray(a), np.asarray(b)
        ok = a.shape == b.shape and a.dtype == b.dtype and (np.array_equal(a, b, equal_nan=True) or (
            a.dtype.kind == "f" and np.allclose(a, b, rtol=1e-12, atol=0, equal_nan=True)))
    elif isinstance(a, (tuple, list)):
        if len(a) != len(b):
            ok = False
        else:
            return all(same(obs, x, y, f"{path}[{i}]", route) for i, (x, y) in enumerate(zip(a, b)))
    else:
        ok = a == b
    if not ok:
        obs.violation("revalidation_changes_config", path=path, route=route, before=a, after=b)
    return ok


def run_case(case, obs):
    from ropt.config.enopt import EnOptConfig  # noqa: PLC0415

    rng = rng_for(obs.seed, "c18", case["i"])
    d, meta = gen_dict(rng)
    V, R, P = meta["V"], meta["R"], meta["P"]
    tspec = None
    if rng.random() < 0.3:
        tspec = {"vscale": rng.uniform(0.5, 4, size=V).tolist(), "voffset": rng.normal(size=V).tolist() if rng.random() < 0.5 else None}
        if meta["nc"] and rng.random() < 0.5:
            tspec["cscale"] = rng.uniform(0.5, 4, size=meta["nc"]).tolist()
        obs.count("with_transform_context")
    case["dict"], case["tspec"] = d, tspec
    if rng.random() < 0.25:
        kind = INVALID[int(rng.integers(len(INVALID)))]
        bad = invalidate(d, meta, kind, rng)
        obs.count("rejections_checked")
        obs.nontrivial(case["i"])
        try:
            EnOptConfig.model_validate(bad, context=make_transforms(tspec) if tspec else None)
        except (ValueError, TypeError):
            return
        obs.violation("inconsistent_input_accepted", kind=kind)
        return
    cfg = EnOptConfig.model_validate(d, context=make_transforms(tspec) if tspec else None)
    obs.nontrivial(case["i"])
    obs.count("canonical_checked")
    if meta.get("nearly_normalized_weights"):
        obs.count("with_nearly_normalized_weights")
    if meta.get("negative_objective_weight"):
        obs.count("with_negative_objective_weight")
    # ---- canonical form
    rw, ow = meta["rw"], meta["ow"]
    for name, got, w in (("realizations.weights", cfg.realizations.weights, rw), ("objectives.weights", cfg.objectives.weights, ow)):
        if got.shape != w.shape or abs(got.sum() - 1) > 1e-12 or not np.allclose(got, w / w.sum(), rtol=1e-12, atol=0):
            obs.violation("weights_not_normalized", field=name, got=got, input=w)
    if meta.get("negligible_weights"):
        obs.count("with_negligible_weights")
    if meta.get("mask_as_integers"):
        obs.count("with_mask_given_as_integers")
    if cfg.variables.mask is not None and cfg.variables.mask.dtype != np.bool_:
        obs.violation("mask_is_not_boolean", dtype=str(cfg.variables.mask.dtype), input=d["variables"].get("mask"))
    for name, arr in (("variables.lower_bounds", cfg.variables.lower_bounds), ("variables.upper_bounds", cfg.variables.upper_bounds),
                      ("variables.types", cfg.variables.types), ("variables.mask", cfg.variables.mask),
                      ("gradient.perturbation_magnitudes", cfg.gradient.perturbation_magnitudes),
                      ("gradient.boundary_types", cfg.gradient.boundary_types), ("gradient.perturbation_types", cfg.gradient.perturbation_types)):
        if arr is not None and arr.shape != (V,):
            obs.violation("not_broadcast_to_variables", field=name, shape=list(arr.shape), V=V)
    if cfg.nonlinear_constraints is not None:
        n = cfg.nonlinear_constraints
        if n.lower_bounds.shape != n.upper_bounds.shape or n.lower_bounds.ndim != 1:
            obs.violation("nonlinear_bounds_shape", lower=list(n.lower_bounds.shape), upper=list(n.upper_bounds.shape))
    if cfg.linear_constraints is not None:
        lc = cfg.linear_constraints
        rows = lc.coefficients.shape[0]
        if lc.lower_bounds.shape != (rows,) or lc.upper_bounds.shape != (rows,) or lc.coefficients.shape[1] != V:
            obs.violation("linear_shapes", coef=list(lc.coefficients.shape), lower=list(lc.lower_bounds.shape))
    want_r = d["realizations"].get("realization_min_success")
    want_r = R if want_r is None else min(want_r, R)
    obs.check(cfg.realizations.realization_min_success == want_r, "realization_min_success_not_clamped", got=cfg.realizations.realization_min_success, want=want_r)
    want_p = d["gradient"].get("perturbation_min_success")
    want_p = P if want_p is None else min(want_p, P)
    obs.check(cfg.gradient.perturbation_min_success == want_p, "perturbation_min_success_not_clamped", got=cfg.gradient.perturbation_min_success, want=want_p)
    # settings that need no resolving are the settings the user wrote
    g_in = d["gradient"]
    for key, got, want in (("seed", tuple(cfg.gradient.seed), (tuple(g_in["seed"]) if isinstance(g_in.get("seed"), (list, tuple)) else (g_in.get("seed"),)) if "seed" in g_in else None),
                           ("number_of_perturbations", cfg.gradient.number_of_perturbations, g_in.get("number_of_perturbations")),
                           ("merge_realizations", cfg.gradient.merge_realizations, g_in.get("merge_realizations"))):
        if want is not None:
            obs.count("plain_settings_compared")
            obs.check(got == want, "setting_lost_in_validation", field="gradient." + key, got=got, want=want, perturbation_types=g_in.get("perturbation_types"))
    # magnitudes: relative -> fraction of the (optimizer-domain) bound range
    pt = np.broadcast_to(np.asarray(d["gradient"].get("perturbation_types", 1)), (V,))
    if np.any(pt == 2):
        obs.count("with_relative_perturbations")
        mags = np.broadcast_to(np.asarray(d["gradient"].get("perturbation_magnitudes", 0.005), dtype=float), (V,))
        rngw = cfg.variables.upper_bounds - cfg.variables.lower_bounds
        rel = pt == 2
        if not np.allclose(cfg.gradient.perturbation_magnitudes[rel], (rngw * mags)[rel], rtol=1e-12):
            obs.violation("relative_magnitude", got=cfg.gradient.perturbation_magnitudes, range=rngw, fraction=mags)
    # ---- frozen
    if not attack(obs, cfg):
        return
    # ---- idempotent
    again = EnOptConfig.model_validate(cfg)
    if not same(obs, cfg, again, "cfg", "object"):
        return
    dump = cfg.model_dump(round_trip=True)
    if not same(obs, cfg, EnOptConfig.model_validate(dump), "cfg", "dump"):
        return
    try:
        text = json.dumps(dump, default=lambda o: o.tolist() if isinstance(o, np.ndarray) else str(o))
    except TypeError as exc:
        obs.violation("dump_not_json_serializable", error=repr(exc))
        return
    cfg3 = EnOptConfig.model_validate(json.loads(text))
    if not same(obs, cfg, cfg3, "cfg", "json"):
        return
    if not same(obs, cfg, EnOptConfig.model_validate(cfg3.model_dump(round_trip=True)), "cfg", "dump-of-json"):
        return
    # ---- the sections handed over as objects that another configuration (other bounds, other context) used before
    from ropt.config import enopt as _e  # noqa: PLC0415

    classes = {"variables": _e.VariablesConfig, "objectives": _e.ObjectiveFunctionsConfig, "linear_constraints": _e.LinearConstraintsConfig,
               "nonlinear_constraints": _e.NonlinearConstraintsConfig, "realizations": _e.RealizationsConfig, "optimizer": _e.OptimizerConfig,
               "gradient": _e.GradientConfig}
    # (since /repo commit 0dd02a0 an embedded section object is validated as a new object with the context of the parent, so
    # every section can be handed over as an object - the variables and non-linear constraint sections, which transform
    # themselves from the validation context, included)
    objs = {k: (classes[k](**v) if k in classes and isinstance(v, dict) else v) for k, v in d.items()}
    snap = {k: json.dumps(v.model_dump(round_trip=True), sort_keys=True, default=lambda o: o.tolist() if isinstance(o, np.ndarray) else str(o))
            for k, v in objs.items() if k in classes and not isinstance(v, dict) and v is not None}
    first = dict(objs)
    if rng.random() < 0.5:
        # an earlier parent with other bounds ...
        first["variables"] = dict(d["variables"])
        lbs = np.broadcast_to(np.asarray(d["variables"].get("lower_bounds", -np.inf), dtype=float), (V,))
        ubs = np.broadcast_to(np.asarray(d["variables"].get("upper_bounds", np.inf), dtype=float), (V,))
        first["variables"]["lower_bounds"] = (lbs - 3.0).tolist()
        first["variables"]["upper_bounds"] = (ubs + 5.0).tolist()
    # ... or the very same variables object in both parents
    try:
        EnOptConfig.model_validate(first, context=None if tspec and rng.random() < 0.5 else (make_transforms(tspec) if tspec else None))
        used_before = True
    except (ValueError, TypeError):
        used_before = False         # e.g. initial values now outside an integer domain: the objects were still handed over
    shared = EnOptConfig.model_validate(objs, context=make_transforms(tspec) if tspec else None)
    obs.count("section_objects_reused" if used_before else "section_objects_first_use")
    # the section objects are validated (frozen) configuration objects themselves: validating a parent does not change them
    for k, before in snap.items():
        after = json.dumps(objs[k].model_dump(round_trip=True), sort_keys=True, default=lambda o: o.tolist() if isinstance(o, np.ndarray) else str(o))
        obs.count("section_objects_compared_after_use")
        if after != before:
            obs.violation("frozen_section_object_changed_by_validating_a_parent", section=k, before=before[:300], after=after[:300])
            return
    if not same(obs, cfg, shared, "cfg", "section-objects-used-before"):
        return
    obs.sample({"dict": {k: (v if k != "variables" else {kk: vv for kk, vv in v.items()}) for k, v in d.items()}, "transforms": tspec})


def classify(v):
    d = v.get("detail", {})
    return None
