"""C08 - the problem handed to SciPy is equivalent to the configured problem.

The interceptor captures the arguments the SciPy plug-in passes to scipy.optimize.minimize /
differential_evolution (bounds, constraints, x0, tol, options) for generated configurations
and evaluates the captured constraint callables at test points (affine constraint
ensembles, so values and Jacobians are known exactly)."""
from __future__ import annotations

import os

import itertools

import numpy as np

from vlib import ens, scipy_hook
from vlib.build import rng_for

PROPERTY = "C08"
LEVEL = "exploration"
TECHNIQUE = "runtime monitoring at the scipy.optimize boundary: captured bounds/constraint objects/normalized constraint callables evaluated on test points vs a direct feasibility predicate on the configuration; Jacobian vs value differences; option plumbing"
LEVEL_TEXT = ("every assignment of constraint kinds (equality, lower, upper, two-sided, unbounded) to up to 2+2 (quick) / 3+3 (thorough) non-linear+linear constraints x every supported method x masks x "
              "options in {None, {}, dict}; 12-40 test points each (random and near-boundary); bounded enumeration")
LEVEL_NOTE = "trusted: the feasibility predicate in this file, the interceptor; linear rows that touch fixed variables may be omitted by ropt ('retained' rows are judged), every other configured restriction must be present"
ANCHOR_FILES = ["src/ropt/plugins/optimizer/scipy.py", "src/ropt/plugins/optimizer/utils.py", "src/ropt/config/enopt/_optimizer_config.py"]
EXECUTION_COUNTERS = ["points_compared"]   # executions of the oracle inside the cases (reported as coverage.evaluations)
RULE = ("case = (method, constraint-kind assignment, mask/options variant); non-trivial if the configuration was accepted and the captured problem was compared on test points; "
        "rejected combinations are counted separately; distinct key = case")
ASSUMPTIONS = ["test points closer than 1e-7 to a constraint boundary are skipped", "a problem without any finite variable bound may be passed with bounds=None"]
EXHAUSTIVE = {"quick": True, "thorough": True}
BOUNDS = {"quick": {"max_nonlinear": 2, "max_linear": 2}, "thorough": {"max_nonlinear": 3, "max_linear": 3}}
REQUIRED = {"quick": {"captured_problems": 1861, "points_compared": 38084, "jacobians_checked": 3000, "max_iterations_checked": 1000, "rejected_combinations": 2000, "masked_problems": 800, "options_not_dict_checked": 500, "option_plumbing_cases": 80, "with_output_directory": 500, "linear_rows_with_identical_coefficients": 150, "constraint_support_of_the_receiving_method_checked": 1100, "__nontrivial__": 1861},
            "thorough": {"captured_problems": 47338, "points_compared": 1193908, "jacobians_checked": 100000, "max_iterations_checked": 30000, "rejected_combinations": 100000, "masked_problems": 30000, "options_not_dict_checked": 15000, "option_plumbing_cases": 800, "with_output_directory": 12000, "linear_rows_with_identical_coefficients": 4000, "constraint_support_of_the_receiving_method_checked": 20000, "__nontrivial__": 45000}}
METHODS = ["slsqp", "cobyla", "l-bfgs-b", "tnc", "nelder-mead", "powell", "bfgs", "cg", "newton-cg", "differential_evolution", "scipy/default"]
KINDS = ["eq", "lower", "upper", "two", "free"]
V = 3


def cases(tier, seed):
    mn, ml = BOUNDS[tier]["max_nonlinear"], BOUNDS[tier]["max_linear"]
    for method in METHODS:
        for nn in range(mn + 1):
            for nl in range(ml + 1):
                for kinds in itertools.product(KINDS, repeat=nn + nl):
                    yield {"method": method, "nn": nn, "nl": nl, "kinds": list(kinds)}
    # the option plumbing of every method, under every spelling of its name, with every form of the options setting
    for method in METHODS:
        for rep in range(12 if tier == "quick" else 120):
            yield {"method": method, "nn": 0, "nl": 0, "kinds": [], "rep": rep}


def _bound(kind, rng):
    a = float(np.round(rng.normal(), 2))
    w = float(np.round(abs(rng.normal()) + 0.3, 2))
    if kind == "two" and rng.random() < 0.3:
        # a band that is narrow relative to its magnitude is still a two-sided inequality
        a = float(np.round(rng.choice([-1.0, 1.0]) * 10 ** rng.uniform(2, 6), 1))
        w = float(np.round(10 ** rng.uniform(-2, 1), 3))
    return {"eq": (a, a), "lower": (a, np.inf), "upper": (-np.inf, a), "two": (a, a + w), "free": (-np.inf, np.inf)}[kind]


_OUTDIR = None


def _outdir():
    global _OUTDIR  # noqa: PLW0603
    if _OUTDIR is None:
        import atexit  # noqa: PLC0415
        import shutil  # noqa: PLC0415
        import tempfile  # noqa: PLC0415

        _OUTDIR = tempfile.mkdtemp(prefix="verif_c08_", dir=("/dev/shm" if os.path.isdir("/dev/shm") else None))
        atexit.register(shutil.rmtree, _OUTDIR, ignore_errors=True)
    return _OUTDIR


def worker_teardown(obs):
    """(atexit handlers do not run in the workers: the scratch directory is removed here)"""
    global _OUTDIR  # noqa: PLW0603
    if _OUTDIR is not None:
        import shutil  # noqa: PLC0415

        shutil.rmtree(_OUTDIR, ignore_errors=True)
        _OUTDIR = None


def run_case(case, obs):
    from ropt.ensemble_evaluator import EnsembleEvaluator  # noqa: PLC0415
    from ropt.optimization import EnsembleOptimizer  # noqa: PLC0415

    rng = rng_for(obs.seed, "c08", case["method"], case["nn"], case["nl"], case["kinds"], case.get("rep"))
    method, nn, nl = case["method"], case["nn"], case["nl"]
    variant = int(rng.integers(0, 6))
    use_mask = variant in (1, 3, 5) or rng.random() < 0.3
    mask = None
    if use_mask:
        mask = [True, False, True] if rng.random() < 0.5 else [bool(b) for b in rng.random(V) < 0.6]
        if not any(mask):
            mask[0] = True
    bkind = rng.choice(["none", "finite", "mixed", "lower_only"])
    if method == "differential_evolution":
        bkind = "finite"
    lb = {"none": [-np.inf] * V, "finite": [-1.5, -1.0, -2.0], "mixed": [-1.5, -np.inf, -2.0], "lower_only": [-1.5, -1.0, -np.inf]}[str(bkind)]
    ub = {"none": [np.inf] * V, "finite": [1.5, 2.0, 1.0], "mixed": [np.inf, 2.0, np.inf], "lower_only": [np.inf] * V}[str(bkind)]
    x0 = np.round(rng.uniform(-0.5, 0.5, size=V), 2)
    F = 1 + nn
    a = np.round(rng.normal(size=(1, F, V)), 2)
    b = np.round(rng.normal(size=(1, F)), 2)
    spec = {"V": V, "R": 1, "P": V, "rweights": [1.0], "oweights": [1.0], "n_con": nn, "x0": x0.tolist(), "lb": lb, "ub": ub, "mask": mask,
            "ensemble": {"kind": "affine", "a": a.tolist(), "b": b.tolist()}, "nan": [], "magnitudes": [0.01], "btypes": [1],
            "samplers": [{"method": "verif/design", "options": {"samples": np.eye(V).tolist()}}]}
    cl, cu = [], []
    for k in case["kinds"][:nn]:
        l, u = _bound(k, rng)
        cl.append(l); cu.append(u)
    if nn:
        spec["con_lb"], spec["con_ub"] = cl, cu
    A = None
    if nl:
        A = np.round(rng.normal(size=(nl, V)), 2)
        if mask is not None:
            for i in range(nl):
                if rng.random() < 0.6:
                    A[i, ~np.array(mask)] = 0.0       # rows that do not touch fixed variables must be retained
        if mask is not None and int((~np.array(mask)).sum()) >= 2:
            # rows whose coefficients on the fixed variables are non-zero but cancel in their sum
            fx = np.flatnonzero(~np.array(mask))
            for i in range(nl):
                if rng.random() < 0.5:
                    cval = float(np.round(rng.uniform(0.5, 2.0), 2))
                    A[i, fx] = 0.0
                    A[i, fx[0]], A[i, fx[1]] = cval, -cval
                    obs.count("linear_rows_with_cancelling_fixed_coefficients")
        A[np.all(A == 0, axis=1), 0] = 1.0
        if nl >= 2 and rng.random() < 0.25:
            # the same combination of variables limited by two rows (a two-sided limit written as two one-sided rows, say):
            # two rows with the same coefficients are two restrictions
            A[1] = A[0]
            obs.count("linear_rows_with_identical_coefficients")
        ll, lu = zip(*[_bound(k, rng) for k in case["kinds"][nn:]])
        spec["linear"] = {"coefficients": A.tolist(), "lower_bounds": list(ll), "upper_bounds": list(lu)}
    optform = ["none", "empty", "dict", "dict2"][int(rng.integers(4))]
    maxit = int(rng.integers(3, 60)) if rng.random() < 0.7 else None
    tolv = float(rng.choice([1e-4, 1e-7])) if rng.random() < 0.5 else None
    opt = {"method": method}
    if case.get("rep") is not None:
        maxit = int(rng.integers(3, 60))
        optform = ["none", "empty", "dict", "dict2"][case["rep"] % 4]
        base = method.split("/")[-1]
        opt = {"method": [method, method.upper(), method.title(), "scipy/" + base, "SciPy/" + base.upper()][case["rep"] % 5]}
        obs.count("option_plumbing_cases")
    if optform == "empty":
        opt["options"] = {}
    elif optform == "dict":
        opt["options"] = {"ftol": 1e-7} if method in ("slsqp", "scipy/default") else {"disp": False}
    elif optform == "dict2":
        opt["options"] = {"maxiter": 999} if method != "tnc" else {"maxfun": 999}
    if maxit is not None:
        opt["max_iterations"] = maxit
    if tolv is not None:
        opt["tolerance"] = tolv
    if rng.random() < 0.3:
        # an output directory for the back-end (it switches the back-end's display on): every other setting stays what it is
        opt["output_dir"] = _outdir()
        obs.count("with_output_directory")
    types = None
    if rng.random() < 0.3:
        types = [int(t) for t in rng.integers(1, 3, size=V)]
        spec["types"] = types
    spec["optimizer"] = opt
    case["spec"] = spec
    cfg = ens.make_config(spec)
    ev = ens.RecordingEvaluator(spec)
    pm = ens.plugin_manager()
    ee = EnsembleEvaluator(cfg, None, ev, pm)
    free = np.ones(V, dtype=bool) if mask is None else np.array(mask)
    nfree = int(free.sum())
    lbv, ubv = np.array(lb), np.array(ub)
    captured = {}

    def full(xf):
        x = x0.copy()
        x[free] = xf
        return x

    def handler(name, orig, args, kw):
        captured["name"], captured["kw"] = name, kw
        # evaluate the captured constraint callables on test points while the optimizer is alive
        pts = [x0[free] + rng.normal(size=nfree) * s for s in (0.05, 0.5, 0.5, 1.5, 1.5, 3.0) for _ in range(2)]
        # near-boundary points for every configured restriction
        for j in range(nn):
            for bnd in (cl[j], cu[j]):
                if np.isfinite(bnd):
                    g = a[0, 1 + j][free]
                    if np.linalg.norm(g) > 1e-6:
                        xf = x0[free].copy()
                        base = a[0, 1 + j] @ full(xf) + b[0, 1 + j]
                        for eps in (-1e-3, 1e-3):
                            pts.append(xf + g * ((bnd + eps - base) / (g @ g)))
        if nl:
            Af = A[:, free]
            for i in range(nl):
                for bnd in (spec["linear"]["lower_bounds"][i], spec["linear"]["upper_bounds"][i]):
                    if np.isfinite(bnd) and np.linalg.norm(Af[i]) > 1e-6:
                        xf = x0[free].copy()
                        base = A[i] @ full(xf)
                        for eps in (-1e-3, 1e-3):
                            pts.append(xf + Af[i] * ((bnd + eps - base) / (Af[i] @ Af[i])))
        res = []
        for xf in pts:
            res.append((np.array(xf), _captured_feasible(name, kw, np.array(xf), nfree, obs)))
        captured["points"] = res
        return None

    try:
        with scipy_hook.active(handler) as hook:
            optim = EnsembleOptimizer(enopt_config=cfg, ensemble_evaluator=ee, plugin_manager=pm)
            optim.start(x0.copy())
    except NotImplementedError:
        obs.count("rejected_combinations")
        obs.feature("rejected." + method)
        return
    if hook.entered != 1:
        obs.count("interceptor_not_entered")
        return
    obs.count("captured_problems")
    obs.nontrivial(case)
    obs.feature("accepted." + method)
    kw, name = captured["kw"], captured["name"]
    if mask is not None:
        obs.count("masked_problems")
    if name == "minimize":
        # SciPy's own rule (scipy/optimize/_minimize.py): every method but these ignores the constraints argument with a
        # warning - a configured restriction handed to such a method is a restriction dropped
        sm = str(kw.get("method", "")).lower()
        cons = kw.get("constraints") or []
        cons = [cons] if isinstance(cons, dict) or not isinstance(cons, (list, tuple)) else list(cons)
        obs.count("constraint_support_of_the_receiving_method_checked")
        if cons and sm not in ("cobyla", "cobyqa", "slsqp", "trust-constr"):
            obs.violation("constraints_handed_to_a_method_that_ignores_them", method=sm, constraints=len(cons), mask=mask)
            return
    # ---- lengths: only the free variables are exposed
    x0c = np.asarray(kw.get("x0"))
    if x0c.shape != (nfree,) or not np.array_equal(x0c, x0[free]):
        obs.violation("x0_not_free_variables", x0=x0c, want=x0[free])
        return
    bnds = kw.get("bounds")
    fin = np.isfinite(lbv[free]).any() or np.isfinite(ubv[free]).any()
    if bnds is None:
        if np.isfinite(lbv).any() or np.isfinite(ubv).any():
            if fin:
                obs.violation("bounds_dropped", lb=lbv, ub=ubv, mask=mask)
                return
    else:
        if not (np.array_equal(np.asarray(bnds.lb), lbv[free]) and np.array_equal(np.asarray(bnds.ub), ubv[free])):
            obs.violation("bounds_not_configured_bounds", got_lb=bnds.lb, got_ub=bnds.ub, want_lb=lbv[free], want_ub=ubv[free])
            return
    if "integrality" in kw and kw["integrality"] is not None:
        integ = np.asarray(kw["integrality"])
        want_i = (np.array(types) == 2)[free]
        if integ.shape != (nfree,) or not np.array_equal(integ, want_i):
            obs.violation("integrality_not_restricted_to_free_variables", got=integ, want=want_i, mask=mask)
            return
    elif name == "differential_evolution" and types is not None and any(np.array(types)[free] == 2):
        obs.violation("integrality_missing", types=types, options_form=optform, passed_integrality=None)
    # ---- options plumbing
    if maxit is not None:
        obs.count("max_iterations_checked")
        if optform in ("none", "empty"):
            obs.count("options_not_dict_checked")
        if name == "differential_evolution":
            got_it = kw.get("maxiter")
        else:
            o = kw.get("options") or {}
            got_it = o.get("maxfun") if method == "tnc" else o.get("maxiter")
        if got_it != maxit:
            obs.violation("max_iterations_not_passed", method=method, options_form=optform, got=got_it, want=maxit, passed_options=kw.get("options"))
    if name == "minimize" and kw.get("tol") != tolv:
        obs.violation("tolerance_not_passed", got=kw.get("tol"), want=tolv)
        return
    # ---- feasibility equivalence on the test points
    retained_lin = None
    if nl:
        touches_fixed = np.any(A[:, ~free] != 0, axis=1)
        retained_lin = ~touches_fixed       # these MUST be present; others may legitimately be omitted (statement: 'retained')
    for xf, cap in captured["points"]:
        if cap is None:
            continue
        xfull = full(xf)
        # configured restrictions
        conf_ok, margin = True, np.inf
        for j in range(nn):
            v = a[0, 1 + j] @ xfull + b[0, 1 + j]
            for lo_hi, sgn in ((cl[j], 1), (cu[j], -1)):
                if np.isfinite(lo_hi):
                    d = sgn * (v - lo_hi)
                    margin = min(margin, abs(d))
                    if abs(cl[j] - cu[j]) < 1e-15:
                        conf_ok &= abs(v - cl[j]) <= 1e-9
                    else:
                        conf_ok &= d >= 0
        lin_req_ok, lin_all_ok = True, True
        if nl:
            vals = A @ xfull
            for i in range(nl):
                lo, hi = spec["linear"]["lower_bounds"][i], spec["linear"]["upper_bounds"][i]
                ok_i = True
                for lo_hi, sgn in ((lo, 1), (hi, -1)):
                    if np.isfinite(lo_hi):
                        d = sgn * (vals[i] - lo_hi)
                        margin = min(margin, abs(d))
                        ok_i &= (abs(vals[i] - lo) <= 1e-9) if abs(lo - hi) < 1e-15 else (d >= 0)
                lin_all_ok &= ok_i
                if retained_lin[i]:
                    lin_req_ok &= ok_i
        if margin < 1e-7:
            obs.count("points_skipped_near_boundary")
            continue
        eqs = [abs(l - u) < 1e-15 for l, u in zip(cl, cu)] + ([abs(l - u) < 1e-15 for l, u in zip(spec["linear"]["lower_bounds"], spec["linear"]["upper_bounds"])] if nl else [])
        obs.count("points_compared")
        cap_ok = cap["feasible"]
        # with equalities a random point is infeasible on both sides; near-boundary points exercise inequalities
        must_ok = conf_ok and lin_all_ok          # configured-feasible => captured must accept
        # rows touching fixed variables may be retained (restated) or omitted: a point violating only such a row may go either way
        if must_ok and not cap_ok and not any(eqs):
            obs.violation("configured_feasible_point_rejected_by_captured_problem", x=xfull, detail=cap["detail"], kinds=case["kinds"], method=method)
            return
        if cap_ok and not (conf_ok and lin_req_ok):
            obs.violation("captured_problem_accepts_configured_infeasible_point", x=xfull, kinds=case["kinds"], method=method, mask=mask,
                          nonlinear_ok=bool(conf_ok), linear_required_ok=bool(lin_req_ok), detail=cap["detail"])
            return
    obs.sample({"method": method, "kinds": case["kinds"], "nn": nn, "nl": nl, "mask": mask, "bounds": str(bkind), "options_form": optform, "max_iterations": maxit})


def _captured_feasible(name, kw, xf, nfree, obs):
    """Feasibility of xf according to the captured constraint objects; also checks Jacobians against value differences."""
    from scipy.optimize import LinearConstraint, NonlinearConstraint  # noqa: PLC0415

    ok, detail = True, []
    # the plug-in treats points within its own allclose tolerance (rtol 1e-5) as one point; two near-boundary test points at
    # |x| ~ 1e3 are closer than that, so visit a far-away point first (the statement is about well separated test points)
    far = -np.asarray(xf) * 3.0 - 777.0
    for con in (kw.get("constraints") or [])[:1]:
        if isinstance(con, dict):
            con["fun"](far)
        elif hasattr(con, "fun"):
            con.fun(far)
    for con in (kw.get("constraints") or [])[1:2]:
        if not isinstance((kw.get("constraints") or [None])[0], dict) and hasattr(con, "fun"):
            con.fun(far)
    for con in kw.get("constraints") or []:
        if isinstance(con, dict):
            v = float(np.ravel(np.asarray(con["fun"](xf)))[0])
            good = abs(v) <= 1e-9 if con["type"] == "eq" else v >= 0
            detail.append((con["type"], v))
            ok &= bool(good)
            if "jac" in con:
                obs.count("jacobians_checked")
                J = np.asarray(con["jac"](xf), dtype=np.float64)
                h = 0.05 * (1.0 + float(np.max(np.abs(xf))))   # well beyond the plug-in's own allclose tolerance
                for k in range(nfree):
                    e = np.zeros(nfree); e[k] = h
                    fd = (float(np.ravel(np.asarray(con["fun"](xf + e)))[0]) - v) / h
                    if abs(fd - J[k]) > 1e-6 * (1 + abs(fd)):
                        obs.violation("normalized_constraint_jacobian_is_not_derivative_of_value", type=con["type"], jac=J, finite_difference=fd, component=k)
                        return None
        elif isinstance(con, LinearConstraint):
            A = np.atleast_2d(np.asarray(con.A))
            if A.shape[1] != nfree:
                obs.violation("linear_constraint_columns_not_free_variables", shape=list(A.shape), nfree=nfree)
                return None
            v = A @ xf
            good = np.all((v >= np.asarray(con.lb) - 1e-12) & (v <= np.asarray(con.ub) + 1e-12))
            detail.append(("linear", v.tolist()))
            ok &= bool(good)
        elif isinstance(con, NonlinearConstraint):
            v = np.atleast_1d(np.asarray(con.fun(xf), dtype=np.float64))
            lo, hi = np.asarray(con.lb), np.asarray(con.ub)
            good = np.all((v >= lo - 1e-12) & (v <= hi + 1e-12))
            detail.append(("nonlinear", v.tolist()))
            ok &= bool(good)
    return {"feasible": ok, "detail": detail}


def classify(v):
    """Known finding: with optimizer.options = None the plug-in's option parser returns {} early, so none of the general
    settings (max_iterations -> maxiter/maxfun, DE integrality) reaches SciPy.  Defect model: options were None in the
    configuration AND the back-end received no value at all (not a wrong one)."""
    d = v.get("detail", {})
    if v["kind"] == "max_iterations_not_passed" and d.get("options_form") == "none" and d.get("got") is None:
        return "options_none_drops_general_settings"
    if v["kind"] == "integrality_missing" and d.get("options_form") == "none":
        return "options_none_drops_general_settings"
    return None
