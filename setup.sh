#!/bin/sh
# Offline setup: install the contract / schema libraries next to the repo's interpreter deps.
set -e
cd "$(dirname "$0")"
if [ ! -d .deps/icontract ] || [ ! -d .deps/jsonschema ]; then
  PIP_NO_INDEX=1 /venv/bin/pip install --quiet --no-index --find-links /opt/veriftools/wheels \
      --target .deps icontract jsonschema >/dev/null 2>&1 || \
  echo "setup: optional deps (icontract, jsonschema) could not be installed; checks run without the contract layer" >&2
fi
/venv/bin/python -c "import numpy, scipy, pydantic; print('setup ok')"
