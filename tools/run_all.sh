#!/bin/sh
# tools/run_all.sh [tier] [seed]: run every check, print one line each
tier=${1:-quick}; seed=${2:-0}
cd "$(dirname "$0")/.."
for i in 01 02 03 04 05 06 07 08 09 10 11 12 13 14 15 16 17 18 19 20; do
  s=$(date +%s); out=$(VERIF_SEED=$seed ./check C$i --tier $tier 2>&1); rc=$?; e=$(date +%s)
  echo "C$i rc=$rc $((e-s))s $(echo "$out" | grep -E '^\[C..\] (HELD|tier)|^VIOLATION|^INCONCLUSIVE|^BROKEN' | tail -1 | cut -c1-160)"
done
