#!/bin/sh
# one reverse patch per fix: commit of /repo -> /verif/mutants/revert_<hash>.diff (each is a monitor-validation mutant).
# Existing files are kept: several were rebased by hand so that they apply to HEAD with a plain `git apply` (a later fix
# touched the same lines); a new one that does not apply to HEAD is reported.
cd /repo && for c in $(git log --format=%h --grep '^fix:' ); do
  f=/verif/mutants/revert_$c.diff
  [ -f $f ] || git diff $c $c^ > $f
  git apply --check $f 2>/dev/null || echo "DOES NOT APPLY TO HEAD: $f" >&2
  echo "$c $(git log -1 --format=%s $c)"
done > /verif/mutants/REVERTS.txt
cat /verif/mutants/REVERTS.txt
