#!/bin/sh
# one reverse patch per fix: commit of /repo -> /verif/mutants/revert_<hash>.diff (each is a monitor-validation mutant)
cd /repo && for c in $(git log --format=%h --grep '^fix:' ); do git diff $c $c^ > /verif/mutants/revert_$c.diff; echo "$c $(git log -1 --format=%s $c)"; done > /verif/mutants/REVERTS.txt
cat /verif/mutants/REVERTS.txt
