#!/venv/bin/python
"""Write /dev/shm/prompts/Cnn_next.txt: base task + the list of changes already tried for that property (from seeded/*/meta.json)."""
import glob, json, os
V = os.path.dirname(os.path.dirname(os.path.abspath(__file__)))
subprocess = __import__("subprocess")
subprocess.run([os.path.join(V, "tools", "mk_prompts.py")], check=True, capture_output=True)
extra = {"C02": "The unmodified tree is known to scale gradients wrongly when gradient.merge_realizations is true; avoid merged-realization mode.",
         "C08": "On the unmodified tree a configured optimizer.max_iterations does NOT reach SciPy when optimizer.options is None; do not rely on or touch that.",
         "C14": "On the unmodified tree a configured optimizer.max_iterations does NOT reach SciPy when optimizer.options is None; do not rely on or touch that.",
         "C20": "Keep PATH=/venv/bin:$PATH and PYTHONPATH=<your worktree>/src exported so that the parent and the child process import your worktree; tests/test_external_optimizers.py is slow-marked (test_external_error fails already on the unmodified tree - ignore)."}
for i in range(1, 21):
    pid = f"C{i:02d}"
    tried = []
    for d in sorted(glob.glob(os.path.join(V, "seeded", pid + "_*"))):
        tried.append("- " + json.load(open(os.path.join(d, "meta.json")))["needs_to_manifest"])
    others = []
    for d in sorted(glob.glob(os.path.join(V, "seeded", "C*_*"))):
        if not os.path.basename(d).startswith(pid):
            others.append("- " + json.load(open(os.path.join(d, "meta.json")))["needs_to_manifest"][:160])
    base = open(f"/dev/shm/prompts/{pid}.txt").read()
    note = "\n\n## Extra notes\n" + (extra.get(pid, "") + "\n" if pid in extra else "") + \
        "The following changes were already tried by others; do NOT repeat them or close variants of them - find a breakage of a different nature, in a different part of the mechanism or needing a different kind of input/history:\n" + "\n".join(tried) + "\n" + \
        "\nChanges tried for OTHER properties of the same code base (some touch the same files; do not reuse these either):\n" + "\n".join(others) + "\n"
    open(f"/dev/shm/prompts/{pid}_next.txt", "w").write(base + note)
print("written")
