#!/venv/bin/python
"""tools/add_finding.py fixed <property> <mechanism> <commit-subject-substring> <what>"""
import json, subprocess, sys
status, prop, mech, sub, what = sys.argv[1:6]
d = json.load(open('/verif/known_findings.json'))
log = subprocess.run(['git', '-C', '/repo', 'log', '--format=%h %s'], capture_output=True, text=True).stdout.strip().split('\n')
c = [l.split()[0] for l in log if sub in l][0]
d['findings'] = [e for e in d['findings'] if not (e['property'] == prop and e['mechanism'] == mech)]
d['findings'].append({"property": prop, "mechanism": mech, "status": "fixed", "commit": c, "what": what, "line": f"fixed: property={prop} {c} {what}"})
json.dump(d, open('/verif/known_findings.json', 'w'), indent=1)
print("recorded", prop, mech, c)
