#!/venv/bin/python
"""Run checks against a property-breaking patch on a scratch clone of /repo (never in /repo itself).

tools/mutant.py <patch-or-seeded-dir> --checks C05[,C01] [--tier quick] [--validate] [--keep]

--validate additionally confirms what makes the change 'realistic': the repository's own test
suite passes on the patched clone, and the demonstration fails there and passes on /repo.
"""
from __future__ import annotations

import argparse
import glob
import json
import os
import shutil
import subprocess
import sys
import tempfile

VERIF = os.path.dirname(os.path.dirname(os.path.abspath(__file__)))


def sh(cmd, timeout=None, **kw):
    """Run; on a timeout kill the whole process group (a hanging demonstration may leave children that keep the pipes open)
    and report exit code 124."""
    import signal  # noqa: PLC0415

    p = subprocess.Popen(cmd, shell=isinstance(cmd, str), stdout=subprocess.PIPE, stderr=subprocess.PIPE, text=True, start_new_session=True, **kw)
    try:
        out, err = p.communicate(timeout=timeout)
    except subprocess.TimeoutExpired:
        try:
            os.killpg(p.pid, signal.SIGKILL)
        except ProcessLookupError:
            pass
        out, err = p.communicate()
        return subprocess.CompletedProcess(cmd, 124, out, (err or "") + "\n[timed out]")
    return subprocess.CompletedProcess(cmd, p.returncode, out, err)


def main() -> int:
    ap = argparse.ArgumentParser()
    ap.add_argument("target")
    ap.add_argument("--checks", default="")
    ap.add_argument("--tier", default="quick")
    ap.add_argument("--seed", default="0")
    ap.add_argument("--validate", action="store_true")
    ap.add_argument("--keep", action="store_true")
    a = ap.parse_args()
    tgt = os.path.abspath(a.target)
    if os.path.isdir(tgt):
        patch = os.path.join(tgt, "patch.diff")
        demos = sorted(glob.glob(os.path.join(tgt, "demo*.py")))
    else:
        patch, demos = tgt, []
    scratch = tempfile.mkdtemp(prefix="mut_", dir="/dev/shm")
    clone = os.path.join(scratch, "repo")
    try:
        r = sh(["git", "clone", "-q", "/repo", clone])
        assert r.returncode == 0, r.stderr
        r = sh(["git", "-C", clone, "apply", "--whitespace=nowarn", patch])
        if r.returncode != 0:
            r = sh(["git", "-C", clone, "apply", "-3", "--whitespace=nowarn", patch])
            if r.returncode != 0:
                print("PATCH DOES NOT APPLY:", r.stderr[-800:])
                return 9
            print("note: patch applied with 3-way merge")
        env = dict(os.environ, PYTHONPATH=os.path.join(clone, "src"), PATH="/venv/bin:" + os.environ.get("PATH", ""),
                   PYTHONDONTWRITEBYTECODE="1")
        out = {"patch": patch}
        if a.validate:
            r = sh("/venv/bin/python -m pytest -q -p no:cacheprovider --timeout=900 tests 2>&1 | tail -3", cwd=clone, env=env)
            out["tests_on_patched"] = r.stdout.strip().splitlines()[-1] if r.stdout.strip() else r.stderr[-300:]
            for d in demos:
                r1 = sh(["/venv/bin/python", d], cwd=clone, env=env, timeout=180)
                env0 = dict(env, PYTHONPATH="/repo/src")
                r0 = sh(["/venv/bin/python", d], cwd="/repo", env=env0, timeout=600)
                out[f"demo {os.path.basename(d)}"] = {"patched_rc": r1.returncode, "clean_rc": r0.returncode,
                                                      "patched_tail": (r1.stdout + r1.stderr)[-300:]}
        evd = os.path.join(scratch, "evidence")
        for c in [c for c in a.checks.split(",") if c]:
            envc = dict(os.environ, VERIF_REPO=clone, VERIF_EVIDENCE_DIR=evd, VERIF_SEED=a.seed)
            r = sh([os.path.join(VERIF, "check"), c, "--tier", a.tier], cwd=VERIF, env=envc)
            lines = [l for l in r.stdout.splitlines() if l.startswith(("VIOLATION", "INCONCLUSIVE", "BROKEN", "KNOWN"))
                     or "violation kinds" in l or "witness" in l]
            out[f"check {c}"] = {"rc": r.returncode, "lines": [l[:400] for l in lines[:6]]}
        print(json.dumps(out, indent=1))
        return 0
    finally:
        if not a.keep:
            shutil.rmtree(scratch, ignore_errors=True)
        else:
            print("kept", scratch)


if __name__ == "__main__":
    sys.exit(main())
