#!/venv/bin/python
"""tools/threshold_audit.py <evidence-dir>: compare each check's REQUIRED minimum with what a run observed (ratio > 0.7 = too tight)."""
import ast, glob, json, os, sys
V = os.path.dirname(os.path.dirname(os.path.abspath(__file__)))
ev = sys.argv[1] if len(sys.argv) > 1 else os.path.join(V, "evidence")
for f in sorted(glob.glob(os.path.join(ev, "C*.json"))):
    d = json.load(open(f))
    pid, tier = d["property_id"], d["tier"]
    src = open(os.path.join(V, "checks", pid.lower() + ".py")).read()
    tree = ast.parse(src)
    req = {}
    for node in tree.body:
        if isinstance(node, ast.Assign) and getattr(node.targets[0], "id", "") == "REQUIRED":
            req = ast.literal_eval(node.value).get(tier, {})
    c = d["coverage"]["monitor_counters"]
    for name, minimum in req.items():
        got = d["coverage"]["distinct_nontrivial"] if name == "__nontrivial__" else c.get(name, 0)
        ratio = minimum / got if got else float("inf")
        if ratio > 0.7:
            print(f"{pid} {tier}: {name} required {minimum} observed {got} ratio {ratio:.2f}")
print("audit done")
