#!/venv/bin/python
"""Run every monitor-validation mutant against the check(s) of its property and write mutants/MATRIX.md.

Sources: seeded/<id>_x (sub-agent changes), mutants/revert_<hash>.diff (reverse of each fix: commit; property from
known_findings.json), mutants/cNN_*.diff (hand-made).  tools/matrix.py [--only C07]"""
import glob, json, os, re, subprocess, sys
V = os.path.dirname(os.path.dirname(os.path.abspath(__file__)))
only = sys.argv[2] if len(sys.argv) > 2 and sys.argv[1] == "--only" else None
kf = json.load(open(os.path.join(V, "known_findings.json")))["findings"]
rows = []
jobs = []
def run(target, checks, label, origin):
    jobs.append((target, checks, label, origin))
def _run(job):
    target, checks, label, origin = job
    rows = []
    r = subprocess.run([os.path.join(V, "tools", "mutant.py"), target, "--checks", ",".join(checks)], capture_output=True, text=True)
    try:
        out = json.loads(r.stdout[r.stdout.index("{"):])
    except Exception:
        rows.append((label, origin, ",".join(checks), "patch does not apply on HEAD", ""))
        return rows
    for c in checks:
        o = out.get(f"check {c}", {})
        kinds = next((l.split("violation kinds:")[1].strip() for l in o.get("lines", []) if "violation kinds" in l), "")
        rows.append((label, origin, c, {0: "MISSED (exit 0)", 1: "caught (exit 1)", 2: "inconclusive (exit 2)", 3: "broken harness"}.get(o.get("rc"), str(o.get("rc"))), kinds[:140]))
    return rows
for d in sorted(glob.glob(os.path.join(V, "seeded", "*"))):
    if not os.path.isdir(d): continue
    meta = json.load(open(os.path.join(d, "meta.json")))
    p = meta["property"]
    if only and p != only: continue
    run(d, [p], os.path.basename(d), "sub-agent" + (" (no longer breaks the property: " + meta["neutralised_by"] + ")" if meta.get("neutralised_by") else ""))
for f in sorted(glob.glob(os.path.join(V, "mutants", "revert_*.diff"))):
    h = re.search(r"revert_(\w+)\.diff", f).group(1)
    props = sorted({e["property"] for e in kf if e.get("commit", "").startswith(h[:7]) or h.startswith(e.get("commit", "zzz")[:7])})
    if not props: continue
    if only and only not in props: continue
    run(f, props, os.path.basename(f), "revert of fix")
for f in sorted(glob.glob(os.path.join(V, "mutants", "c[0-9][0-9]_*.diff"))):
    p = "C" + os.path.basename(f)[1:3]
    if only and p != only: continue
    run(f, [p], os.path.basename(f), "hand-made")
from concurrent.futures import ThreadPoolExecutor
with ThreadPoolExecutor(max_workers=4) as ex:
    for part in ex.map(_run, jobs):
        rows.extend(part)
with open(os.path.join(V, "mutants", "MATRIX.md"), "w") as fh:
    fh.write("| change | origin | check | outcome (quick tier, seed 0) | violation kinds |\n|---|---|---|---|---|\n")
    for r in rows:
        fh.write("| " + " | ".join(r) + " |\n")
print(open(os.path.join(V, "mutants", "MATRIX.md")).read())
