#!/venv/bin/python
"""Write the sub-agent task files (/dev/shm/prompts/Cnn.txt): property text + scratch worktree, nothing from /verif."""
import json, os
T = open(os.path.join(os.path.dirname(__file__), "prompt_template.txt")).read()
os.makedirs("/dev/shm/prompts", exist_ok=True)
for l in open(os.path.join(os.path.dirname(__file__), "..", "properties.jsonl")):
    p = json.loads(l)
    open(f"/dev/shm/prompts/{p['id']}.txt", "w").write(T.format(id=p["id"], title=p["title"], statement=p["statement"], quant=p["quantifier"]["text"], wt=f"/tmp/wt_{p['id']}"))
print("written")
