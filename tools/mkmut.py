#!/venv/bin/python
"""tools/mkmut.py <name> <file-rel-to-repo> <<< python-literal [(old, new), ...]  -> mutants/<name>.diff (made on a scratch clone of /repo HEAD)"""
import ast, subprocess, sys, tempfile, shutil, os
name, rel = sys.argv[1], sys.argv[2]
pairs = ast.literal_eval(sys.stdin.read())
d = tempfile.mkdtemp(prefix="mk_", dir="/dev/shm")
try:
    subprocess.run(["git", "clone", "-q", "/repo", d + "/r"], check=True)
    p = os.path.join(d, "r", rel)
    s = open(p).read()
    for old, new in pairs:
        assert s.count(old) >= 1, f"pattern not found: {old!r}"
        s = s.replace(old, new, 1)
    open(p, "w").write(s)
    diff = subprocess.run(["git", "-C", d + "/r", "diff"], capture_output=True, text=True).stdout
    open(f"/verif/mutants/{name}.diff", "w").write(diff)
    print("wrote", name, len(diff.splitlines()), "lines")
finally:
    shutil.rmtree(d, ignore_errors=True)
