#!/venv/bin/python
"""tools/matrix_update.py C03,C07 [--new C01_o,C02_o]: re-run the rows of mutants/MATRIX.md that belong to the given properties
(every stored change of those properties) plus the given new seeded changes, and merge the outcome into MATRIX.md in place."""
import glob, json, os, re, subprocess, sys
from concurrent.futures import ThreadPoolExecutor
V = os.path.dirname(os.path.dirname(os.path.abspath(__file__)))
props = [p for p in sys.argv[1].split(",") if p]
new = sys.argv[3].split(",") if len(sys.argv) > 3 and sys.argv[2] == "--new" else []
kf = json.load(open(os.path.join(V, "known_findings.json")))["findings"]
jobs = []
for d in sorted(glob.glob(os.path.join(V, "seeded", "*"))):
    if not os.path.isdir(d): continue
    meta = json.load(open(os.path.join(d, "meta.json")))
    if meta["property"] in props or os.path.basename(d) in new:
        jobs.append((d, [meta["property"]], os.path.basename(d), "sub-agent" + (" (no longer breaks the property: " + meta["neutralised_by"] + ")" if meta.get("neutralised_by") else "")))
for f in sorted(glob.glob(os.path.join(V, "mutants", "revert_*.diff"))):
    h = re.search(r"revert_(\w+)\.diff", f).group(1)
    ps = sorted({e["property"] for e in kf if e.get("commit", "").startswith(h[:7]) or h.startswith(e.get("commit", "zzz")[:7])})
    ps = [p for p in ps if p in props]
    if ps: jobs.append((f, ps, os.path.basename(f), "revert of fix"))
for f in sorted(glob.glob(os.path.join(V, "mutants", "c[0-9][0-9]_*.diff"))):
    p = "C" + os.path.basename(f)[1:3]
    if p in props: jobs.append((f, [p], os.path.basename(f), "hand-made"))
def _run(job):
    target, checks, label, origin = job
    r = subprocess.run([os.path.join(V, "tools", "mutant.py"), target, "--checks", ",".join(checks)], capture_output=True, text=True)
    try:
        out = json.loads(r.stdout[r.stdout.index("{"):])
    except Exception:
        return [(label, origin, ",".join(checks), "patch does not apply on HEAD", "")]
    rows = []
    for c in checks:
        o = out.get(f"check {c}", {})
        kinds = next((l.split("violation kinds:")[1].strip() for l in o.get("lines", []) if "violation kinds" in l), "")
        rows.append((label, origin, c, {0: "MISSED (exit 0)", 1: "caught (exit 1)", 2: "inconclusive (exit 2)", 3: "broken harness"}.get(o.get("rc"), str(o.get("rc"))), kinds[:140]))
    return rows
res = {}
with ThreadPoolExecutor(max_workers=int(os.environ.get("MATRIX_WORKERS", "3"))) as ex:
    for part in ex.map(_run, jobs):
        for r in part:
            res[(r[0], r[2])] = r
            print(r[0], r[2], r[3], flush=True)
path = os.path.join(V, "mutants", "MATRIX.md")
lines = open(path).read().splitlines()
out, seen = [], set()
for ln in lines:
    cells = [c.strip() for c in ln.strip("|").split("|")]
    key = (cells[0], cells[2]) if len(cells) >= 4 else None
    if key in res:
        out.append("| " + " | ".join(res[key]) + " |"); seen.add(key)
    else:
        out.append(ln)
# new rows: after the last sub-agent row of the same property (or at the end of the sub-agent block)
for key in sorted(k for k in res if k not in seen):
    row = "| " + " | ".join(res[key]) + " |"
    idx = max((i for i, ln in enumerate(out) if ln.startswith("| " + key[0][:3] + "_")), default=None)
    if idx is None:
        idx = max(i for i, ln in enumerate(out) if "| sub-agent" in ln)
    out.insert(idx + 1, row)
open(path, "w").write("\n".join(out) + "\n")
print("merged", len(res), "rows")
