#!/venv/bin/python
"""tools/threshold_fix.py <evidence-dir>: lower REQUIRED minima to at most 60 % of what that run observed (never raises one)."""
import ast, glob, json, os, re, sys
V = os.path.dirname(os.path.dirname(os.path.abspath(__file__)))
ev = sys.argv[1]
for f in sorted(glob.glob(os.path.join(ev, "C*.json"))):
    d = json.load(open(f))
    pid, tier = d["property_id"], d["tier"]
    path = os.path.join(V, "checks", pid.lower() + ".py")
    src = open(path).read()
    tree = ast.parse(src)
    node = next(n for n in tree.body if isinstance(n, ast.Assign) and getattr(n.targets[0], "id", "") == "REQUIRED")
    req = ast.literal_eval(node.value)
    c = d["coverage"]["monitor_counters"]
    changed = False
    for name, minimum in list(req.get(tier, {}).items()):
        got = d["coverage"]["distinct_nontrivial"] if name == "__nontrivial__" else c.get(name, 0)
        if got and minimum > 0.6 * got:
            new = max(2, int(0.6 * got))
            req[tier][name] = new
            changed = True
    if changed:
        lines = src.split("\n")
        start, end = node.lineno - 1, node.end_lineno
        text = "REQUIRED = {" + ",\n            ".join(f'"{t}": ' + json.dumps(req[t]) for t in req) + "}"
        lines[start:end] = text.split("\n")
        open(path, "w").write("\n".join(lines))
        print("updated", pid, tier)
