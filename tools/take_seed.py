#!/venv/bin/python
"""tools/take_seed.py C01 c "<what it needs to manifest>" [--checks C01,C05] : store a sub-agent's change from /tmp/wt_<ID>
as seeded/<ID>_<suffix>/ (patch.diff, demo.py, meta.json), remove the worktree, validate it and run the checks."""
import json, os, shutil, subprocess, sys
V = os.path.dirname(os.path.dirname(os.path.abspath(__file__)))
pid, suf, needs = sys.argv[1], sys.argv[2], sys.argv[3]
checks = sys.argv[5] if len(sys.argv) > 5 and sys.argv[4] == "--checks" else pid
wt = f"/tmp/wt_{pid}"
d = os.path.join(V, "seeded", f"{pid}_{suf}")
os.makedirs(d, exist_ok=True)
if os.path.exists(wt):
    shutil.copy(os.path.join(wt, f"patch_{pid}.diff"), os.path.join(d, "patch.diff"))
    shutil.copy(os.path.join(wt, f"demo_{pid}.py"), os.path.join(d, "demo.py"))
    subprocess.run(["git", "-C", "/repo", "worktree", "remove", "--force", wt])
r = subprocess.run([os.path.join(V, "tools", "mutant.py"), d, "--validate", "--checks", checks], capture_output=True, text=True)
out = json.loads(r.stdout[r.stdout.index("{"):])
det = []
for c in checks.split(","):
    o = out.get(f"check {c}", {})
    kinds = next((l.split("violation kinds:")[1].strip() for l in o.get("lines", []) if "violation kinds" in l), "")
    det.append(f"{c}: " + ({1: "caught", 0: "MISSED", 2: "inconclusive", 3: "broken harness"}.get(o.get("rc"), "?")) + (" " + kinds if kinds else ""))
demo = out.get("demo demo.py", {})
meta = {"property": pid, "breaks": pid, "needs_to_manifest": needs,
        "origin": "independent sub-agent given only the property text and a scratch worktree (later rounds: also told which kinds of change to avoid)",
        "confirmed": f"tools/mutant.py seeded/{pid}_{suf} --validate: repository tests on the patched clone: {out.get('tests_on_patched')}; demo.py exit {demo.get('patched_rc')} on the patched clone, exit {demo.get('clean_rc')} on /repo",
        "detection_when_stored": det}
json.dump(meta, open(os.path.join(d, "meta.json"), "w"), indent=1)
print(json.dumps({"tests": out.get("tests_on_patched"), "demo": [demo.get("patched_rc"), demo.get("clean_rc")], "detection": det}, indent=1))
