"""Helpers that drive the real ropt objects from outside (public API only)."""
from __future__ import annotations

import numpy as np


def ropt_api():
    """Late import so that env.bootstrap() decided which tree is used."""
    import ropt  # noqa: F401,PLC0415
    from ropt.config.enopt import EnOptConfig  # noqa: PLC0415
    from ropt.plugins import PluginManager  # noqa: PLC0415

    return EnOptConfig, PluginManager


_PM = None


def plugin_manager(fresh: bool = False):
    global _PM  # noqa: PLW0603
    from ropt.plugins import PluginManager  # noqa: PLC0415

    if fresh:
        return PluginManager()
    if _PM is None:
        _PM = PluginManager()
    return _PM


def bound_pair(kind: str, rng: np.random.Generator, scale: float = 1.0):
    """(lower, upper) for a constraint-bound kind."""
    a = float(rng.normal() * scale)
    match kind:
        case "upper":
            return -np.inf, a
        case "lower":
            return a, np.inf
        case "eq":
            return a, a
        case "two":
            return a, a + float(abs(rng.normal()) * scale + 0.1)
        case "free":
            return -np.inf, np.inf
    raise ValueError(kind)


def rng_for(seed: int, *salt) -> np.random.Generator:
    import zlib  # noqa: PLC0415

    ints = [int(seed) & 0xFFFFFFFF]
    for s in salt:
        ints.append(zlib.crc32(repr(s).encode()) & 0xFFFFFFFF)
    return np.random.default_rng(ints)
