"""Observer: what the monitors of one worker saw (counters, distinct non-trivial
cases, violations with their case, samples, anchor reach)."""
from __future__ import annotations

import hashlib
import json
import os
import signal
import sys
import time
import traceback
from collections import Counter

from . import env


class CaseTimeout(Exception):
    pass


def _jsonable(x):
    import numpy as np  # noqa: PLC0415

    if isinstance(x, dict):
        return {str(k): _jsonable(v) for k, v in x.items()}
    if isinstance(x, (list, tuple, set, frozenset)):
        return [_jsonable(v) for v in x]
    if isinstance(x, np.ndarray):
        return _jsonable(x.tolist())
    if isinstance(x, (np.floating,)):
        return _jsonable(float(x))
    if isinstance(x, (np.integer,)):
        return int(x)
    if isinstance(x, (np.bool_,)):
        return bool(x)
    if isinstance(x, float):
        if x != x:
            return "NaN"
        if x in (float("inf"), float("-inf")):
            return "inf" if x > 0 else "-inf"
        return x
    if isinstance(x, (int, str, bool)) or x is None:
        return x
    return repr(x)


class Observer:
    def __init__(self, pid: str, tier: str, seed: int, *, verbose: bool = False) -> None:
        self.pid, self.tier, self.seed = pid, tier, seed
        self.verbose = verbose
        self.counters: Counter = Counter()
        self.features: Counter = Counter()
        self.keys: set[str] = set()
        self.samples: list = []
        self.violations: list = []
        self.harness_errors: list[str] = []
        self.watchdogs: list[str] = []
        self.cases = 0
        self.truncated = False
        self._case = None
        self._index = -1
        self._case_viol = 0
        self.anchors: Counter = Counter()

    # -- per case
    def begin(self, index: int, case) -> None:
        self._index, self._case, self._case_viol = index, case, 0
        self.cases += 1

    def end(self) -> None:
        self._case = None

    def count(self, name: str, n: int = 1) -> None:
        self.counters[name] += n

    def feature(self, name: str, n: int = 1) -> None:
        self.features[name] += n

    def nontrivial(self, *key) -> None:
        """Mark the current case (or a sub-case identified by key) as non-trivial."""
        raw = json.dumps(_jsonable(key if key else (self._index,)), sort_keys=True)
        self.keys.add(hashlib.blake2b(raw.encode(), digest_size=8).hexdigest())

    def sample(self, obj, limit: int = 3) -> None:
        if len(self.samples) < limit:
            self.samples.append(_jsonable(obj))

    def violation(self, kind: str, /, **detail) -> None:
        self.counters["violations." + kind] += 1
        self._case_viol += 1
        if self.verbose:
            print(f"  violation kind={kind} detail={json.dumps(_jsonable(detail))[:3000]}")
        if len(self.violations) < 60 and self._case_viol <= 4:
            self.violations.append({"kind": kind, "detail": _jsonable(detail), "index": self._index,
                                    "case": _jsonable(self._case)})

    def check(self, cond: bool, kind: str, /, **detail) -> bool:
        if not cond:
            self.violation(kind, **detail)
        return bool(cond)

    def exception(self, tb: str, exc_info) -> None:
        """An exception escaped run_case: inside ropt -> violation, inside the harness -> broken."""
        frames = traceback.extract_tb(exc_info[2])
        last = frames[-1].filename if frames else ""
        in_ropt = any(f.filename.startswith(env.SRC) for f in frames)
        innermost_ropt = last.startswith(env.SRC)
        if isinstance(exc_info[1], CaseTimeout):
            self.counters["case_watchdog"] += 1
            self.watchdogs.append(f"case {self._index} exceeded the per-case wall-clock watchdog")
            return
        if type(exc_info[1]).__name__ == "ContractBroken":
            self.violation("contract_broken", message=str(exc_info[1])[:1500], traceback=tb[-1200:])
            return
        # a user-style transform of the harness (vlib/transforms.py) that fails in its own arithmetic when ropt calls it was handed
        # arguments of the wrong shape by ropt: that is ropt's doing, not a slip of the harness
        callback_from_ropt = (len(frames) >= 2 and last.endswith(os.path.join("vlib", "transforms.py")) and frames[-2].filename.startswith(env.SRC)
                              and isinstance(exc_info[1], (ValueError, IndexError)))
        if in_ropt and (innermost_ropt or not last.startswith(env.VERIF_DIR) or callback_from_ropt):
            self.violation("unexpected_exception", exception=repr(exc_info[1]), where=f"{frames[-1].filename}:{frames[-1].lineno}",
                           traceback=tb[-1500:])
        else:
            self.harness_errors.append(f"case {self._index}: {tb[-1800:]}")

    def dump(self) -> dict:
        return {"counters": dict(self.counters), "features": dict(self.features), "keys": sorted(self.keys),
                "samples": self.samples, "violations": self.violations, "cases": self.cases,
                "harness_errors": self.harness_errors[:5], "watchdogs": self.watchdogs[:5], "truncated": self.truncated,
                "anchors": {f"{k[0]}::{k[1]}": v for k, v in self.anchors.items()}}


def _install_anchor_monitor(obs: Observer, files: list[str]) -> None:
    if os.environ.get("VERIF_NO_ANCHOR") or not hasattr(sys, "monitoring"):
        return
    mon = sys.monitoring
    tool = mon.PROFILER_ID
    try:
        mon.use_tool_id(tool, "verif-anchor")
    except ValueError:
        return
    wanted = tuple(os.path.join(env.REPO, f) for f in files)
    counts = obs.anchors
    pre = len(env.REPO) + 1

    def cb(code, _offset):
        fn = code.co_filename
        if fn not in wanted:
            return mon.DISABLE
        counts[(fn[pre:], code.co_qualname)] += 1
        return None

    mon.register_callback(tool, mon.events.PY_START, cb)
    mon.set_events(tool, mon.events.PY_START)


def _alarm(_sig, _frm):
    raise CaseTimeout


def run_stream(mod, obs: Observer, tier: str, seed: int, shard: int, nshards: int, budget_s: float = 0.0) -> None:
    _install_anchor_monitor(obs, getattr(mod, "ANCHOR_FILES", []))
    case_timeout = int(getattr(mod, "CASE_TIMEOUT", 120))
    signal.signal(signal.SIGALRM, _alarm)
    t0 = time.time()
    groups = getattr(mod, "CONTRACT_GROUPS", None)
    contracts = None
    if groups:
        try:
            from . import contracts  # noqa: PLC0415

            rebound = contracts.install(groups)
            for name, n in rebound.items():
                obs.count("contract_refs_rebound." + name, n)
        except ImportError:
            contracts = None
            obs.count("contract_layer_unavailable")
    setup = getattr(mod, "worker_setup", None)
    if setup is not None:
        setup(obs)
    for idx, case in enumerate(mod.cases(tier, seed)):
        if idx % nshards != shard:
            continue
        if budget_s and time.time() - t0 > budget_s:
            obs.truncated = True
            break
        obs.begin(idx, case)
        signal.alarm(case_timeout)
        nbroken = len(contracts.BROKEN) if contracts is not None else 0
        try:
            mod.run_case(case, obs)
        except Exception:  # noqa: BLE001
            signal.alarm(0)
            obs.exception(traceback.format_exc(), sys.exc_info())
        finally:
            signal.alarm(0)
        if contracts is not None and len(contracts.BROKEN) > nbroken:
            obs.violation("contract_broken", count=len(contracts.BROKEN) - nbroken, first=contracts.BROKEN[nbroken][:1200])
            del contracts.BROKEN[200:]
        obs.end()
    if contracts is not None:
        for name, n in contracts.COUNTS.items():
            obs.count("contract_evaluations." + name, n)
    teardown = getattr(mod, "worker_teardown", None)
    if teardown is not None:
        teardown(obs)
