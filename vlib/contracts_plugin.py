"""pytest plug-in: run the repository's own tests with the runtime contracts switched on.

  VERIF_CONTRACTS=C04,C05 VERIF_CONTRACT_OUT=/path/out.json pytest -p vlib.contracts_plugin ...
"""
from __future__ import annotations

import json
import os


def pytest_configure(config):
    from vlib import contracts, env  # noqa: PLC0415

    env.bootstrap()
    groups = [g for g in os.environ.get("VERIF_CONTRACTS", "").split(",") if g] or None
    config._verif_rebound = contracts.install(groups)


def pytest_sessionfinish(session, exitstatus):
    from vlib import contracts  # noqa: PLC0415

    out = os.environ.get("VERIF_CONTRACT_OUT")
    if out:
        with open(out, "w") as fh:
            json.dump({"counts": dict(contracts.COUNTS), "broken": contracts.BROKEN[:20], "rebound": session.config._verif_rebound,
                       "exitstatus": int(exitstatus), "failed": session.testsfailed, "collected": session.testscollected}, fh)
