"""Runtime-monitoring harness for TNO-ropt/ropt (see /verif/DESIGN.md)."""
