"""User-style transforms (same shape as the ones in the repository's own tests)."""
from __future__ import annotations

import numpy as np


def make_transforms(spec_t):
    """spec_t: {"vscale": [...]|None, "voffset": [...]|None, "oscale": [...]|None, "cscale": [...]|None, "flip": bool}"""
    from ropt.transforms import OptModelTransforms, VariableScaler  # noqa: PLC0415
    from ropt.transforms.base import NonLinearConstraintTransform, ObjectiveTransform  # noqa: PLC0415

    class ObjectiveScaler(ObjectiveTransform):
        def __init__(self, scales, flip=False):
            self._scales = np.asarray(scales, dtype=np.float64)
            self._flip = flip

        def to_optimizer(self, objectives):
            return objectives / self._scales

        def from_optimizer(self, objectives):
            return objectives * self._scales

        def weighted_objective_from_optimizer(self, weighted_objective):
            return -weighted_objective if self._flip else weighted_objective

    class ConstraintScaler(NonLinearConstraintTransform):
        def __init__(self, scales):
            self._scales = np.asarray(scales, dtype=np.float64)

        def bounds_to_optimizer(self, lower_bounds, upper_bounds):
            return lower_bounds / self._scales, upper_bounds / self._scales

        def to_optimizer(self, constraints):
            return constraints / self._scales

        def from_optimizer(self, constraints):
            return constraints * self._scales

        def nonlinear_constraint_diffs_from_optimizer(self, lower_diffs, upper_diffs):
            return lower_diffs * self._scales, upper_diffs * self._scales

    v = o = c = None
    if spec_t.get("vscale") is not None or spec_t.get("voffset") is not None:
        v = VariableScaler(None if spec_t.get("vscale") is None else (np.asarray(spec_t["vscale"]) if spec_t.get("vscale_integer_array") else np.asarray(spec_t["vscale"], dtype=np.float64)),
                           None if spec_t.get("voffset") is None else np.asarray(spec_t["voffset"], dtype=np.float64))
    if spec_t.get("oscale") is not None:
        o = ObjectiveScaler(spec_t["oscale"], flip=bool(spec_t.get("flip")))
    if spec_t.get("cscale") is not None:
        c = ConstraintScaler(spec_t["cscale"])
    if v is None and o is None and c is None:
        return None
    return OptModelTransforms(variables=v, objectives=o, nonlinear_constraints=c)
