from __future__ import annotations

import json
import os

from . import env


def write_evidence(mod, pid, tier, seed, *, cases, keys, counters, features, anchors, samples, known, unknown,
                   problems, broken, wall, nshards) -> None:
    exhaustive = bool(getattr(mod, "EXHAUSTIVE", {}).get(tier, False))
    verdict = "broken-harness" if broken else "violated" if unknown else "inconclusive" if problems else "held"
    execs = sum(int(counters.get(k, 0)) for k in getattr(mod, "EXECUTION_COUNTERS", []))
    cov = {
        "evaluations": int(max(cases, execs)),
        "cases": int(cases),
        "distinct_nontrivial": int(len(keys)),
        "rule": getattr(mod, "RULE", ""),
        "samples": samples if samples else [{"note": "no sample recorded"}],
        "exhaustive": exhaustive,
        "monitor_counters": {k: int(v) for k, v in sorted(counters.items())},
        "case_features": {k: int(v) for k, v in sorted(features.items())},
        "anchor_reach": {k: int(v) for k, v in sorted(anchors.items())},
        "verdict": verdict,
        "inconclusive_reasons": problems,
        "known_findings_seen": {m: len(v) for m, v in known.items()},
        "unlisted_violation_kinds": sorted({v["kind"] for v in unknown}),
        "shards": nshards,
        "repo": env.REPO,
    }
    if getattr(mod, "BOUNDS", None):
        cov["bounds"] = mod.BOUNDS.get(tier)
    doc = {
        "property_id": pid,
        "tier": tier,
        "seed": int(seed),
        "level": getattr(mod, "LEVEL", "exploration"),
        "coverage": cov,
        "assumptions": list(getattr(mod, "ASSUMPTIONS", [])),
        "wall_s": round(float(wall), 2),
        "violations": int(len(unknown)),
    }
    out = os.path.join(os.environ.get("VERIF_EVIDENCE_DIR") or os.path.join(env.VERIF_DIR, "evidence"), f"{pid}.json")
    os.makedirs(os.path.dirname(out), exist_ok=True)
    with open(out, "w") as fh:
        json.dump(doc, fh, indent=1, default=str)
        fh.write("\n")
