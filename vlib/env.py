"""Process bootstrap: make `import ropt` resolve to the tree under test.

VERIF_REPO (default /repo) selects the tree; the self-validation of the monitors
points it at scratch copies.  Everything that the harness starts as a child
process (workers, the external optimizer's runner) inherits the same choice
through PYTHONPATH.
"""
from __future__ import annotations

import os
import sys

VERIF_DIR = os.path.dirname(os.path.dirname(os.path.abspath(__file__)))
REPO = os.path.abspath(os.environ.get("VERIF_REPO", "/repo"))
SRC = os.path.join(REPO, "src")
GUARD = "ROPT_VERIF"


def child_env() -> dict[str, str]:
    env = dict(os.environ)
    env["VERIF_REPO"] = REPO
    paths = [SRC, VERIF_DIR, os.path.join(VERIF_DIR, ".deps")]
    old = env.get("PYTHONPATH")
    if old:
        paths += [p for p in old.split(os.pathsep) if p not in paths]
    env["PYTHONPATH"] = os.pathsep.join(paths)
    env["PATH"] = "/venv/bin" + os.pathsep + env.get("PATH", "/usr/bin:/bin")
    env["PYTHONDONTWRITEBYTECODE"] = "1"
    env[GUARD] = "1"
    for k in ("OMP_NUM_THREADS", "OPENBLAS_NUM_THREADS", "MKL_NUM_THREADS"):
        env[k] = "1"
    env.setdefault("PYTHONHASHSEED", "0")
    return env


def bootstrap() -> None:
    """Called first thing in every worker."""
    sys.dont_write_bytecode = True
    for p in (os.path.join(VERIF_DIR, ".deps"), VERIF_DIR, SRC):
        if p in sys.path:
            sys.path.remove(p)
        sys.path.insert(0, p)
    os.environ.update({k: v for k, v in child_env().items() if k in (
        "PYTHONPATH", "PATH", "VERIF_REPO", GUARD, "OMP_NUM_THREADS",
        "OPENBLAS_NUM_THREADS", "MKL_NUM_THREADS", "PYTHONDONTWRITEBYTECODE")})
    import ropt  # noqa: PLC0415

    where = os.path.abspath(ropt.__file__)
    if not where.startswith(SRC + os.sep):
        raise SystemExit(f"BROKEN-HARNESS: ropt imported from {where}, expected under {SRC}")
