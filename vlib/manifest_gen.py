"""Regenerate MANIFEST.json from the check modules that exist (python -m vlib.manifest_gen)."""
from __future__ import annotations

import importlib
import json
import os
import subprocess
import sys

HERE = os.path.dirname(os.path.dirname(os.path.abspath(__file__)))
sys.path.insert(0, HERE)

NOT_BUILT_REASON = "no check registered yet in this round; planned runtime monitor described in DESIGN.md section 3"


def main() -> None:
    props = [json.loads(l) for l in open(os.path.join(HERE, "properties.jsonl"))]
    checks, na = [], []
    for p in props:
        pid = p["id"]
        path = os.path.join(HERE, "checks", pid.lower() + ".py")
        if not os.path.exists(path):
            na.append({"property_id": pid, "reason": NOT_BUILT_REASON})
            continue
        src = open(path).read()
        ns: dict = {}
        # read the declarative header without importing ropt
        for name in ("LEVEL", "TECHNIQUE", "LEVEL_TEXT", "LEVEL_NOTE"):
            pass
        mod_doc = src.split('"""')[1] if '"""' in src else ""
        meta = _meta(path)
        checks.append({
            "property_id": pid,
            "quick_cmd": f"./check {pid} --tier quick",
            "thorough_cmd": f"./check {pid} --tier thorough",
            "evidence_file": f"/verif/evidence/{pid}.json",
            "replay_cmd_template": f"./check {pid} --replay {{path}}",
            "engine": "vlib",
            "level_claimed": {"category": meta["LEVEL"], "text": meta["LEVEL_TEXT"], "design_ref": f"DESIGN.md section 3, {pid}"},
            "level_note": meta["LEVEL_NOTE"],
            "technique": meta["TECHNIQUE"],
        })
    hooks_commits = []
    hc = os.path.join(HERE, "hooks_commits.txt")
    if os.path.exists(hc):
        hooks_commits = [l.split()[0] for l in open(hc) if l.strip() and not l.startswith("#")]
    man = {
        "version": 1,
        "setup_cmd": "./setup.sh",
        "hooks": {
            "guard": "ROPT_VERIF",
            "enable": "no source hooks are needed: every monitor observes ropt at its public boundaries (evaluator callable, plan events, plug-in registry, callables handed to SciPy, process table); checks export ROPT_VERIF=1 and import /repo/src fresh in every worker process",
            "baseline_off_cmd": "cd /repo && /venv/bin/python -m pytest -ra -q -p no:cacheprovider --timeout=900 --continue-on-collection-errors",
            "source_commits": hooks_commits,
            "add_only": True,
        },
        "engines": [{"name": "vlib", "path": "/verif/vlib", "serves_properties": [c["property_id"] for c in checks],
                     "kind_free_text": "runtime monitoring: sharded workload driver + boundary monitors + independent reference models (NumPy/fractions) + icontract layer; three-valued verdicts"}],
        "checks": checks,
        "not_applicable": na,
        "notes": "Technique family: runtime monitoring. Exit codes: 0 held, 1 VIOLATION, 2 INCONCLUSIVE (a deciding monitor saw too little), 3 BROKEN-HARNESS. Known findings: known_findings.json (matched by mechanism).",
    }
    with open(os.path.join(HERE, "MANIFEST.json"), "w") as fh:
        json.dump(man, fh, indent=1)
        fh.write("\n")
    print(f"MANIFEST.json: {len(checks)} checks, {len(na)} not claimed")


def _meta(path: str) -> dict:
    import ast

    tree = ast.parse(open(path).read())
    out = {"LEVEL": "exploration", "TECHNIQUE": "runtime monitor with reference-model oracle",
           "LEVEL_TEXT": "", "LEVEL_NOTE": ""}
    for node in tree.body:
        if isinstance(node, ast.Assign) and len(node.targets) == 1 and isinstance(node.targets[0], ast.Name):
            n = node.targets[0].id
            if n in out:
                try:
                    out[n] = ast.literal_eval(node.value)
                except Exception:  # noqa: BLE001
                    pass
    if not out["LEVEL_TEXT"]:
        out["LEVEL_TEXT"] = "held on the executions listed in the evidence file (bounded-exhaustive + seeded workloads against an independent oracle)"
    if not out["LEVEL_NOTE"]:
        out["LEVEL_NOTE"] = "trusted: CPython/NumPy/SciPy/pydantic as installed, the reference model in vlib/models.py, the harness"
    return out


if __name__ == "__main__":
    main()
