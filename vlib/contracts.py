"""Supplementary runtime-contract layer (icontract) on pure helpers of ropt.

The deciding monitors are the boundary monitors in checks/; these contracts run *inside* the same
workloads (and inside the repository's own test-suite, see contracts_plugin.py) and watch internal
post-conditions on every call.  Every contract counts its evaluations: zero evaluations (helper
renamed, reference bound before wrapping) is reported and never counted as 'held'.

install(groups) wraps the helpers by rebinding every module-global reference to the original
function object inside the ropt package (so `from ._utils import f` bindings are covered)."""
from __future__ import annotations

import sys
from collections import Counter

import numpy as np

COUNTS: Counter = Counter()
BROKEN: list = []
_INSTALLED: set = set()


class ContractBroken(AssertionError):
    pass


def _fail(name, **kw):
    msg = f"contract {name} broken: " + ", ".join(f"{k}={np.asarray(v).tolist() if isinstance(v, np.ndarray) else v}" for k, v in kw.items())
    BROKEN.append(msg[:2000])
    return ContractBroken(msg[:2000])


def _mk_error(name):
    """icontract matches the parameters of the error callable against the function's arguments: take none."""

    def error():
        return ContractBroken(f"contract {name} broken: {BROKEN[-1] if BROKEN else ''}")

    return error


RECORD_ONLY = True   # conditions record a broken contract and let the execution continue, so the boundary monitors still see it


def _recording(cond):
    import functools  # noqa: PLC0415

    @functools.wraps(cond)
    def wrapper(*args, **kwargs):
        ok = cond(*args, **kwargs)
        return True if RECORD_ONLY else ok

    return wrapper


def _rebind(orig, new):
    n = 0
    for mname, mod in list(sys.modules.items()):
        if mod is None or not (mname == "ropt" or mname.startswith("ropt.")):
            continue
        for attr, val in list(vars(mod).items()):
            if val is orig:
                setattr(mod, attr, new)
                n += 1
    return n


def _ensure(orig, cond, name):
    import icontract  # noqa: PLC0415

    def error(**kw):
        return _fail(name, **{k: v for k, v in kw.items() if k != "_ARGS"})

    return icontract.ensure(cond, error=lambda *a, **kw: ContractBroken(f"contract {name} broken"))(orig)


# ----------------------------------------------------------------------------- conditions (named functions, argument names match)


@_recording
def cvar_weights_ok(values, failed_realizations, percentile, result):
    COUNTS["cvar_weights"] += 1
    failed = np.asarray(failed_realizations, dtype=bool)
    w = np.asarray(result)
    if w.shape != failed.shape or np.any(w < 0) or np.any(w[failed] != 0):
        BROKEN.append(f"cvar_weights: w={w.tolist()} failed={failed.tolist()} p={percentile}")
        return False
    n = int((~failed).sum())
    if n and abs(float(w.sum()) - percentile) > 1e-12:
        BROKEN.append(f"cvar_weights mass: w={w.tolist()} p={percentile}")
        return False
    if n and np.count_nonzero(w) > int(np.ceil(percentile * n - 1e-12)) + 0:
        if np.count_nonzero(w) > int(np.ceil(percentile * n + 1e-12)):
            BROKEN.append(f"cvar_weights support: w={w.tolist()} p={percentile}")
            return False
    return True


@_recording
def sort_select_ok(values, configured_weights, failed_realizations, first, last, result):
    COUNTS["sort_and_select"] += 1
    failed = np.asarray(failed_realizations, dtype=bool)
    w, cw = np.asarray(result), np.asarray(configured_weights)
    ok = w.shape == cw.shape and bool(np.all((w == 0) | (w == cw))) and bool(np.all(w[failed] == 0)) and np.count_nonzero(w) <= last - first + 1
    if not ok:
        BROKEN.append(f"sort_and_select: w={w.tolist()} configured={cw.tolist()} failed={failed.tolist()} window=[{first},{last}]")
    return ok


@_recording
def apply_bounds_ok(variables, lower_bounds, upper_bounds, truncation_types, result):
    COUNTS["apply_bounds"] += 1
    v, r = np.asarray(variables, dtype=float), np.asarray(result, dtype=float)
    lb, ub, t = np.broadcast_to(lower_bounds, v.shape), np.broadcast_to(upper_bounds, v.shape), np.broadcast_to(truncation_types, v.shape)
    inside = (v >= lb) & (v <= ub)
    ok = bool(np.all(r[inside] == v[inside])) and bool(np.all(r[t == 1] == v[t == 1])) and bool(np.all((r[t != 1] >= lb[t != 1]) & (r[t != 1] <= ub[t != 1])))
    if not ok:
        BROKEN.append(f"apply_bounds: variables={v.tolist()} result={r.tolist()} types={t.tolist()}")
    return ok


@_recording
def failed_realizations_ok(objectives, perturbed_objectives, perturbation_min_success, result):
    COUNTS["failed_realizations"] += 1
    want = np.isnan(np.asarray(objectives)[..., 0])
    if perturbed_objectives is not None:
        succ = np.count_nonzero(~np.isnan(np.asarray(perturbed_objectives)[..., 0]), axis=-1)
        want = want | (succ < perturbation_min_success)
    ok = bool(np.array_equal(np.asarray(result), want))
    if not ok:
        BROKEN.append(f"failed_realizations: got={np.asarray(result).tolist()} want={want.tolist()}")
    return ok


@_recording
def estimator_weights_ok(self, functions, weights):
    COUNTS["estimator_weights"] += 1
    w, f = np.asarray(weights, dtype=float), np.asarray(functions, dtype=float)
    if np.any(np.isnan(w)):
        return True          # no positive weight survived: outside the contract (NaN in, NaN out)
    # (mixed-sign configured realization weights are valid: the weights an estimator receives sum to one, failed entries carry none)
    ok = abs(float(w.sum()) - 1.0) <= 1e-9 and bool(np.all(w[np.isnan(f)] == 0))
    if not ok:
        BROKEN.append(f"estimator_weights: weights={w.tolist()} functions={f.tolist()}")
    return ok


@_recording
def constraint_info_ok(self):
    COUNTS["constraint_info"] += 1
    for lo, up, vi in ((self.bound_lower, self.bound_upper, self.bound_violation), (self.linear_lower, self.linear_upper, self.linear_violation),
                       (self.nonlinear_lower, self.nonlinear_upper, self.nonlinear_violation)):
        if lo is None or up is None:
            continue
        want = np.maximum(np.maximum(-np.asarray(lo), np.asarray(up)), 0.0)
        if vi is None or not np.array_equal(np.asarray(vi), want, equal_nan=True):
            BROKEN.append(f"constraint_info: lower={np.asarray(lo).tolist()} upper={np.asarray(up).tolist()} violation={None if vi is None else np.asarray(vi).tolist()}")
            return False
    return True


# ----------------------------------------------------------------------------- installation

GROUPS = {
    "C04": ["cvar_weights"], "C05": ["sort_and_select"], "C10": ["apply_bounds"], "C03": ["failed_realizations"], "C01": ["estimator_weights"],
    "C13": ["constraint_info"],
}


def install(groups=None):
    """Wrap the helpers of the given property groups (default: all). Returns {contract: number of rebound references}."""
    import icontract  # noqa: PLC0415
    import ropt.ensemble_evaluator._ensemble_evaluator  # noqa: F401,PLC0415
    import ropt.ensemble_evaluator._gradient as grad  # noqa: PLC0415
    import ropt.ensemble_evaluator._utils as utils  # noqa: PLC0415
    import ropt.plugins.function_estimator.default as est  # noqa: PLC0415
    import ropt.plugins.realization_filter.default as flt  # noqa: PLC0415
    import ropt.results._constraint_info as ci  # noqa: PLC0415

    wanted = set()
    for g in (groups or GROUPS):
        wanted |= set(GROUPS.get(g, []))
    out = {}

    def wrap(modobj, attr, cond, name, *, method_of=None):
        if name not in wanted or name in _INSTALLED:
            return
        holder = method_of if method_of is not None else modobj
        orig = getattr(holder, attr, None)
        if orig is None:
            out[name] = 0
            return
        new = icontract.ensure(cond, error=_mk_error(name))(orig)
        if method_of is not None:
            setattr(method_of, attr, new)
            out[name] = 1
        else:
            out[name] = _rebind(orig, new)
        _INSTALLED.add(name)

    wrap(flt, "_get_cvar_weights_from_percentile", cvar_weights_ok, "cvar_weights")
    wrap(flt, "_sort_and_select", sort_select_ok, "sort_and_select")
    wrap(grad, "_apply_bounds", apply_bounds_ok, "apply_bounds")
    wrap(utils, "_get_failed_realizations", failed_realizations_ok, "failed_realizations")
    if "estimator_weights" in wanted and "estimator_weights" not in _INSTALLED:
        cls = est.DefaultFunctionEstimator
        cls.calculate_function = icontract.require(
            estimator_weights_ok, error=_mk_error("estimator_weights"))(cls.calculate_function)
        _INSTALLED.add("estimator_weights")
        out["estimator_weights"] = 1
    if "constraint_info" in wanted and "constraint_info" not in _INSTALLED:
        cls = ci.ConstraintInfo
        cls.__post_init__ = icontract.ensure(
            constraint_info_ok, error=_mk_error("constraint_info"))(cls.__post_init__)
        _INSTALLED.add("constraint_info")
        out["constraint_info"] = 1
    return out
