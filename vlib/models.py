"""Reference models.  Nothing here imports ropt: these are independent
re-statements of the properties in NumPy / fractions."""
from __future__ import annotations

import math
from fractions import Fraction

import numpy as np

TOL = 1e-12


# ----------------------------------------------------------------------------- C04


def cvar_expected(n_success: int, percentile: float):
    """Exact description of the CVaR weight multiset for n successful realizations.

    Returns (full, remainder, allowed_counts): `full` realizations carry 1/n, one
    more carries `remainder` (a Fraction, may be 0), everything else exactly 0.
    allowed_counts is the set of admissible numbers of non-zero weights: the exact
    ceil(p*n) and - when p*n is within rounding of an integer k - also k."""
    p = Fraction(percentile)
    n = n_success
    pn = p * n
    full = math.floor(pn)
    rem = p - Fraction(full, n)
    allowed = {math.ceil(pn)}
    k = round(pn)
    if k >= 1 and abs(pn - k) < Fraction(1, 10**12):
        allowed.add(k)
    return full, rem, allowed


def check_cvar_weights(w, badness, failed, percentile):
    """Return a list of (kind, detail) problems of a CVaR weight vector.

    badness[i]: larger = worse (only meaningful where not failed); None -> no
    ordering requirement (two-sided constraints)."""
    w = np.asarray(w, dtype=np.float64)
    failed = np.asarray(failed, dtype=bool)
    probs = []
    succ = np.flatnonzero(~failed)
    n = succ.size
    if w.shape != failed.shape:
        return [("shape", {"got": list(w.shape)})]
    if np.any(np.isnan(w)):
        return [("nan_weight", {"w": w.tolist()})]
    if np.any(w < 0):
        probs.append(("negative_weight", {"min": float(w.min())}))
    if np.any(w[failed] != 0):
        probs.append(("failed_has_weight", {"w_failed": w[failed].tolist()}))
    full, rem, allowed = cvar_expected(n, percentile)
    nz = int(np.count_nonzero(w[succ]))
    if nz not in allowed:
        probs.append(("support_size", {"nonzero": nz, "allowed": sorted(allowed), "n": int(n), "p": percentile}))
    if abs(float(w.sum()) - percentile) > TOL:
        probs.append(("mass", {"sum": float(w.sum()), "p": percentile}))
    # magnitudes: sorted descending weights must be full x 1/n, then remainder, then zeros
    ws = np.sort(w[succ])[::-1]
    exp = np.zeros(n)
    exp[:full] = 1.0 / n
    if full < n:
        exp[full] = float(rem)
    if np.max(np.abs(ws - exp)) > TOL:
        probs.append(("magnitudes", {"sorted_w": ws.tolist(), "expected": exp.tolist()}))
    if badness is not None and n:
        b = np.asarray(badness, dtype=np.float64)[succ]
        ww = w[succ]
        order = np.argsort(-b, kind="stable")
        bs, wo = b[order], ww[order]
        # a strictly better realization may carry weight only if every strictly worse one is full
        for i in range(n):
            if wo[i] > TOL:
                worse = bs > bs[i]
                if np.any(np.abs(wo[worse] - 1.0 / n) > TOL):
                    probs.append(("order", {"badness_sorted": bs.tolist(), "w_sorted": wo.tolist()}))
                    break
    return probs


def cvar_tail_mean(values, badness, failed, percentile):
    """(1/p) * sum of expected weights * values, tie independent only if ties share values."""
    failed = np.asarray(failed, dtype=bool)
    succ = np.flatnonzero(~failed)
    n = succ.size
    full, rem, _ = cvar_expected(n, percentile)
    order = succ[np.argsort(-np.asarray(badness, dtype=np.float64)[succ], kind="stable")]
    w = np.zeros(len(failed))
    w[order[:full]] = 1.0 / n
    if full < n:
        w[order[full]] = float(rem)
    return float(np.dot(w, np.where(failed, 0.0, values)) / w.sum()), w


# ----------------------------------------------------------------------------- C05


def check_sort_weights(w, key, failed, configured, first, last):
    """Problems of a sort-filter weight vector; ties in key accepted as any consistent order."""
    w = np.asarray(w, dtype=np.float64)
    failed = np.asarray(failed, dtype=bool)
    configured = np.asarray(configured, dtype=np.float64)
    key = np.asarray(key, dtype=np.float64)
    probs = []
    if w.shape != failed.shape:
        return [("shape", {"got": list(w.shape)})]
    if np.any(w[failed] != 0):
        probs.append(("failed_has_weight", {}))
    succ = np.flatnonzero(~failed)
    n = succ.size
    sel = np.flatnonzero(w != 0)
    # every weight is either exactly the configured one or exactly zero
    bad = [int(i) for i in range(w.size) if w[i] != 0 and w[i] != configured[i]]
    if bad:
        probs.append(("not_configured_weight", {"idx": bad, "w": w.tolist(), "configured": configured.tolist()}))
    # rank window (ascending): ranks first..min(last, n-1)
    lo, hi = first, min(last, n - 1)
    want = max(0, hi - lo + 1)
    ks = np.sort(key[succ])
    # realizations that MUST be selected / MUST NOT be selected given ties
    must, mustnot = [], []
    for i in succ:
        below = int(np.sum(ks < key[i]))          # smallest possible rank
        upto = int(np.sum(ks <= key[i])) - 1       # largest possible rank
        if want and below >= lo and upto <= hi:
            must.append(int(i))
        if not want or upto < lo or below > hi:
            mustnot.append(int(i))
    # selected set is observed through non-zero weights; realizations with configured weight 0 are invisible
    vis = lambda i: configured[i] != 0  # noqa: E731
    for i in must:
        if vis(i) and w[i] == 0:
            probs.append(("missing_in_window", {"idx": i, "key": key.tolist(), "w": w.tolist(), "first": first, "last": last}))
            break
    for i in mustnot:
        if w[i] != 0:
            probs.append(("outside_window_selected", {"idx": i, "key": key.tolist(), "w": w.tolist(), "first": first, "last": last}))
            break
    if np.all(configured[succ] != 0) and len(sel) != want:
        probs.append(("window_size", {"selected": int(len(sel)), "want": want}))
    return probs


def sort_window_positive(key, failed, configured, first, last) -> bool | None:
    """Does the window select a realization with positive weight? None if ties make it ambiguous."""
    failed = np.asarray(failed, dtype=bool)
    succ = np.flatnonzero(~failed)
    key = np.asarray(key, dtype=np.float64)
    configured = np.asarray(configured, dtype=np.float64)
    n = succ.size
    lo, hi = first, min(last, n - 1)
    if hi < lo:
        return False
    ks = np.sort(key[succ])
    definitely, possibly = False, False
    for i in succ:
        if configured[i] <= 0:
            continue
        below = int(np.sum(ks < key[i]))
        upto = int(np.sum(ks <= key[i])) - 1
        if below >= lo and upto <= hi:
            definitely = True
        if not (upto < lo or below > hi):
            possibly = True
    if definitely:
        return True
    if not possibly:
        return False
    return None


# ----------------------------------------------------------------------------- C01 / C02 / C03


def norm_weights(weights, failed):
    w = np.where(np.asarray(failed, dtype=bool), 0.0, np.asarray(weights, dtype=np.float64))
    s = w.sum()
    return w / s if s != 0 else w * np.nan


def est_mean(values, w):
    return float(np.dot(np.where(w != 0, values, 0.0), w))


def est_stddev(values, w):
    n = int(np.count_nonzero(w > 0))
    if n < 2:
        return None
    # exact rational arithmetic on the float inputs (values with a large common offset make the float two-pass formula lose
    # digits too; the reference should not)
    from fractions import Fraction  # noqa: PLC0415

    vw = [(Fraction(float(x)), Fraction(float(y))) for x, y in zip(values, w) if y != 0]
    m = sum(x * y for x, y in vw)
    var = Fraction(n, n - 1) * sum((x - m) ** 2 * y for x, y in vw)
    return float(np.sqrt(float(var))) if var >= 0 else float("nan")


def grad_mean(slopes, w):
    """slopes: (R, V) exact per-realization gradients."""
    return np.einsum("r,rv->v", w, np.where(w[:, None] != 0, slopes, 0.0))


def grad_stddev(values, slopes, w):
    n = int(np.count_nonzero(w > 0))
    if n < 2:
        return None
    v = np.where(w != 0, values, 0.0)
    a = np.where(w[:, None] != 0, slopes, 0.0)
    m = float(np.dot(v, w))
    sd = float(np.sqrt(n / (n - 1) * np.dot((v - m) ** 2, w)))
    if sd == 0:
        return None
    abar = np.einsum("r,rv->v", w, a)
    return (n / (n - 1)) / sd * np.einsum("r,r,rv->v", w, v - m, a - abar)
