"""Interceptor at the boundary between ropt's SciPy plug-in and scipy.optimize.

minimize / differential_evolution are replaced both at their SciPy definition and at every
name in ropt.plugins.optimizer.scipy that is the original object, so a change of import
style in ropt does not silently bypass the interceptor.  When no handler is active the
original function runs.  ENTERED counts interceptions: zero means inconclusive."""
from __future__ import annotations

import scipy.optimize as so

_ORIG = {"minimize": so.minimize, "differential_evolution": so.differential_evolution}
_STATE = {"handler": None, "entered": 0, "installed": False}


def _wrap(name):
    orig = _ORIG[name]

    def wrapper(*args, **kwargs):
        h = _STATE["handler"]
        if h is None:
            return orig(*args, **kwargs)
        _STATE["entered"] += 1
        return h(name, orig, args, kwargs)

    wrapper.__name__ = name
    wrapper._verif_wrapper = True
    return wrapper


def install():
    if _STATE["installed"]:
        return
    import ropt.plugins.optimizer.scipy as plug  # noqa: PLC0415

    for name in _ORIG:
        w = _wrap(name)
        setattr(so, name, w)
        for attr, val in list(vars(plug).items()):
            if val is _ORIG[name]:
                setattr(plug, attr, w)
        # module-style access (plug.scipy.optimize.minimize / so.minimize) is covered by patching scipy.optimize itself
    _STATE["installed"] = True


class active:
    def __init__(self, handler):
        self.handler = handler

    def __enter__(self):
        install()
        _STATE["handler"] = self.handler
        self.before = _STATE["entered"]
        return self

    def __exit__(self, *exc):
        _STATE["handler"] = None
        self.entered = _STATE["entered"] - self.before
        return False


def original(name):
    return _ORIG[name]
