"""known_findings.json: open findings are matched by *mechanism id* (computed by the
check's classify(): predicate over the case + defect model over the observed
values), never by case hash.  'fixed' entries suppress nothing."""
from __future__ import annotations

import json
import os


class Findings:
    def __init__(self, path: str) -> None:
        self.entries = []
        if os.path.exists(path):
            with open(path) as fh:
                self.entries = json.load(fh).get("findings", [])

    def is_open(self, pid: str, mech: str) -> bool:
        return any(e["property"] == pid and e["mechanism"] == mech and e["status"] == "open" for e in self.entries)

    def what(self, pid: str, mech: str) -> str:
        for e in self.entries:
            if e["property"] == pid and e["mechanism"] == mech:
                return e.get("what", "")
        return ""
