"""./check <ID> [--tier quick|thorough] [--replay file] [--shards N] [--shard i/n --out f]

Parent: splits the case stream of checks/<id>.py over worker processes
(subprocess.run with a timeout each, never multiprocessing.Pool), merges what
the monitors observed, matches violations against known_findings.json, writes
evidence/<ID>.json and decides the three-valued verdict:

  exit 0  held on everything observed (KNOWN-FINDING lines allowed)
  exit 1  VIOLATION property=<id> replay=<path>
  exit 2  INCONCLUSIVE (a deciding monitor saw too little / watchdog fired)
  exit 3  BROKEN-HARNESS (our own code failed)
"""
from __future__ import annotations

import argparse
import importlib
import json
import os
import subprocess
import sys
import tempfile
import time
import traceback
from collections import Counter
from concurrent.futures import ThreadPoolExecutor

from . import env

VERIF = env.VERIF_DIR


def _load(pid: str):
    return importlib.import_module(f"checks.{pid.lower()}")


# --------------------------------------------------------------------------- worker


def worker_main(args: argparse.Namespace) -> int:
    env.bootstrap()
    from .observe import Observer, run_stream  # noqa: PLC0415

    mod = _load(args.id)
    shard, nshards = (int(x) for x in args.shard.split("/"))
    obs = Observer(args.id, args.tier, args.seed)
    run_stream(mod, obs, args.tier, args.seed, shard, nshards,
               budget_s=float(os.environ.get("VERIF_SHARD_BUDGET", "0") or 0))
    with open(args.out, "w") as fh:
        json.dump(obs.dump(), fh)
    return 0


def replay_main(args: argparse.Namespace) -> int:
    env.bootstrap()
    from .observe import Observer  # noqa: PLC0415

    mod = _load(args.id)
    with open(args.replay) as fh:
        rep = json.load(fh)
    case = rep["case"]
    obs = Observer(args.id, rep.get("tier", "quick"), rep.get("seed", 0), verbose=True)
    obs.begin(rep.get("index", -1), case)
    try:
        mod.run_case(case, obs)
    except Exception:  # noqa: BLE001
        obs.exception(traceback.format_exc(), sys.exc_info())
    obs.end()
    d = obs.dump()
    print(json.dumps({"counters": d["counters"], "violations": d["violations"]}, indent=1, default=str)[:20000])
    if d["violations"]:
        print(f"VIOLATION property={args.id} replay={args.replay}")
        return 1
    print("replay: no violation observed")
    return 0


# --------------------------------------------------------------------------- parent


def _run_shard(pid: str, tier: str, seed: int, shard: int, nshards: int, outdir: str, timeout: float):
    out = os.path.join(outdir, f"shard{shard}.json")
    cmd = ["/venv/bin/python", "-B", "-m", "vlib.cli", pid, "--tier", tier, "--seed", str(seed),
           "--shard", f"{shard}/{nshards}", "--out", out]
    t0 = time.time()
    try:
        p = subprocess.run(cmd, cwd=VERIF, env=dict(env.child_env(), VERIF_SCRATCH=outdir), capture_output=True, text=True,
                           timeout=timeout, check=False)
    except subprocess.TimeoutExpired:
        return {"shard": shard, "status": "watchdog", "wall": time.time() - t0}
    if p.returncode != 0 or not os.path.exists(out):
        return {"shard": shard, "status": "crashed", "rc": p.returncode,
                "stderr": (p.stderr or "")[-4000:], "stdout": (p.stdout or "")[-2000:]}
    with open(out) as fh:
        d = json.load(fh)
    d["shard"] = shard
    d["status"] = "ok"
    d["stderr_tail"] = (p.stderr or "")[-2000:]
    return d


def parent_main(args: argparse.Namespace) -> int:
    t0 = time.time()
    pid, tier, seed = args.id, args.tier, args.seed
    sys.path.insert(0, VERIF)
    env.bootstrap()
    mod = _load(pid)
    from .findings import Findings  # noqa: PLC0415
    from .evidence import write_evidence  # noqa: PLC0415

    nshards = args.shards or min(16, os.cpu_count() or 4)
    nshards = min(nshards, getattr(mod, "MAX_SHARDS", nshards))
    timeout = float(getattr(mod, "SHARD_TIMEOUT", {"quick": 600, "thorough": 7200})[tier])
    scratch = tempfile.mkdtemp(prefix=f"verif_{pid}_", dir="/dev/shm" if os.path.isdir("/dev/shm") else None)
    try:
        with ThreadPoolExecutor(max_workers=nshards) as ex:
            results = list(ex.map(lambda s: _run_shard(pid, tier, seed, s, nshards, scratch, timeout), range(nshards)))
    finally:
        import shutil  # noqa: PLC0415

        shutil.rmtree(scratch, ignore_errors=True)

    counters: Counter = Counter()
    features: Counter = Counter()
    anchors: Counter = Counter()
    keys: set[str] = set()
    samples: list = []
    violations: list = []
    cases = 0
    problems: list[str] = []
    broken: list[str] = []
    for r in results:
        if r["status"] == "watchdog":
            problems.append(f"shard {r['shard']} hit the wall-clock watchdog ({timeout}s)")
            continue
        if r["status"] == "crashed":
            broken.append(f"shard {r['shard']} crashed rc={r.get('rc')}: {r.get('stderr', '')[-1500:]}")
            continue
        counters.update(r["counters"])
        features.update(r["features"])
        anchors.update(r["anchors"])
        keys.update(r["keys"])
        cases += r["cases"]
        for s in r["samples"]:
            if len(samples) < 6:
                samples.append(s)
        violations.extend(r["violations"])
        for h in r.get("harness_errors", []):
            broken.append(h)
        for wd in r.get("watchdogs", []):
            problems.append(wd)
        if r.get("truncated"):
            problems.append(f"shard {r['shard']} stopped on its time budget after {r['cases']} cases")

    if os.environ.get("VERIF_DEBUG"):
        with open(os.environ["VERIF_DEBUG"], "w") as fh:
            json.dump(violations, fh, default=str)
    # supplementary workload: the repository's own test-suite with this property's runtime contracts switched on
    groups = getattr(mod, "CONTRACT_GROUPS", None)
    if groups and not os.environ.get("VERIF_NO_REPO_TESTS"):
        out = os.path.join(tempfile.gettempdir() if not os.path.isdir("/dev/shm") else "/dev/shm", f"verif_contr_{pid}_{os.getpid()}.json")
        e = env.child_env()
        e["VERIF_CONTRACTS"], e["VERIF_CONTRACT_OUT"] = ",".join(groups), out
        try:
            p = subprocess.run(["/venv/bin/python", "-B", "-m", "pytest", "-q", "-x", "-p", "vlib.contracts_plugin", "-p", "no:cacheprovider", "--timeout=900", "tests"],
                               cwd=env.REPO, env=e, capture_output=True, text=True, timeout=1200, check=False)
            if os.path.exists(out):
                with open(out) as fh:
                    rep = json.load(fh)
                os.remove(out)
                for name, n in rep["counts"].items():
                    counters["repo_tests.contract_evaluations." + name] += n
                counters["repo_tests.collected"] += rep.get("collected", 0)
                if rep["broken"]:
                    violations.append({"kind": "contract_broken_in_repository_tests", "detail": {"messages": rep["broken"][:3]}, "index": -1, "case": {"workload": "repository tests"}})
                elif rep["failed"]:
                    problems.append(f"repository tests failed with contracts on ({rep['failed']} failures) without a contract firing")
            else:
                problems.append("repository tests with contracts on did not produce a report: " + (p.stdout + p.stderr)[-300:])
        except subprocess.TimeoutExpired:
            problems.append("repository tests with contracts on hit the watchdog")
    findings = Findings(os.path.join(VERIF, "known_findings.json"))
    classify = getattr(mod, "classify", None)
    known: dict[str, list] = {}
    unknown: list = []
    for v in violations:
        mech = None
        if classify is not None:
            try:
                mech = classify(v)
            except Exception:  # noqa: BLE001
                mech = None
        v["mechanism"] = mech
        if mech is not None and findings.is_open(pid, mech):
            known.setdefault(mech, []).append(v)
        else:
            unknown.append(v)

    # thresholds: deciding monitors must have seen enough
    need = getattr(mod, "REQUIRED", {}).get(tier, {})
    for name, minimum in need.items():
        got = len(keys) if name == "__nontrivial__" else counters.get(name, 0)
        if got < minimum:
            problems.append(f"monitor '{name}' observed {got} < required {minimum}")

    replay_dir = os.path.join(os.environ.get("VERIF_EVIDENCE_DIR") or os.path.join(VERIF, "evidence"), "replay")
    os.makedirs(replay_dir, exist_ok=True)
    replay_paths = []
    for i, v in enumerate(unknown[:5]):
        path = os.path.join(replay_dir, f"{pid}-{tier}-{seed}-{i}.json")
        with open(path, "w") as fh:
            json.dump({"property": pid, "tier": tier, "seed": seed, "index": v.get("index"),
                       "case": v.get("case"), "violation": {k: v[k] for k in v if k != "case"}}, fh,
                      indent=1, default=str)
        replay_paths.append(path)

    wall = time.time() - t0
    write_evidence(mod, pid, tier, seed, cases=cases, keys=keys, counters=counters, features=features,
                   anchors=anchors, samples=samples, known=known, unknown=unknown, problems=problems,
                   broken=broken, wall=wall, nshards=nshards)

    for mech, vs in sorted(known.items()):
        print(f"KNOWN-FINDING: property={pid} {mech}: {findings.what(pid, mech)} (seen {len(vs)}x this run)")
    print(f"[{pid}] tier={tier} seed={seed} cases={cases} distinct_nontrivial={len(keys)} "
          f"violations={len(unknown)} known={sum(len(v) for v in known.values())} wall={wall:.1f}s")
    top = ", ".join(f"{k}={v}" for k, v in sorted(counters.items())[:40])
    print(f"[{pid}] monitors: {top}")
    if broken:
        for b in broken[:5]:
            print(f"BROKEN-HARNESS property={pid} {b}")
        return 3
    if unknown:
        kinds = Counter(v["kind"] for v in unknown)
        print(f"[{pid}] violation kinds: {dict(kinds)}")
        for v in unknown[:3]:
            print(f"[{pid}] witness: kind={v['kind']} detail={json.dumps(v.get('detail'), default=str)[:600]}")
        print(f"VIOLATION property={pid} replay={replay_paths[0]}")
        return 1
    if problems:
        for p in problems:
            print(f"INCONCLUSIVE property={pid} reason={p}")
        return 2
    print(f"[{pid}] HELD on what was observed")
    return 0


def main(argv: list[str] | None = None) -> int:
    ap = argparse.ArgumentParser()
    ap.add_argument("id")
    ap.add_argument("--tier", default=os.environ.get("VERIF_TIER") or "quick", choices=["quick", "thorough"])
    ap.add_argument("--seed", type=int, default=int(os.environ.get("VERIF_SEED") or 0))
    ap.add_argument("--replay")
    ap.add_argument("--shards", type=int, default=int(os.environ.get("VERIF_SHARDS") or 0))
    ap.add_argument("--shard")
    ap.add_argument("--out")
    args = ap.parse_args(argv)
    args.id = args.id.upper()
    if VERIF not in sys.path:
        sys.path.insert(0, VERIF)
    if args.replay:
        return replay_main(args)
    if args.shard:
        return worker_main(args)
    return parent_main(args)


if __name__ == "__main__":
    sys.exit(main())
