"""Ensemble workload kit shared by the evaluator-level checks (C01, C02, C03, C06, C09-C11, C14-C16).

A *spec* is a JSON-able dict describing an ensemble problem; from it we build the
real EnOptConfig, a recording evaluator with scripted NaN faults, and (optionally)
an injected deterministic sampler plug-in ("verif/design").  Nothing here judges:
the oracles live in the check modules and vlib.models."""
from __future__ import annotations

import math

import numpy as np

INF = float("inf")


def revive(x):
    """Inverse of observe._jsonable for floats that JSON cannot carry."""
    if isinstance(x, dict):
        return {k: revive(v) for k, v in x.items()}
    if isinstance(x, list):
        return [revive(v) for v in x]
    if x == "inf":
        return INF
    if x == "-inf":
        return -INF
    if x == "NaN":
        return float("nan")
    return x


# ----------------------------------------------------------------------------- injected sampler


def _design_plugin():
    from ropt.plugins.sampler.base import Sampler, SamplerPlugin  # noqa: PLC0415

    class DesignSampler(Sampler):
        """Returns the array given in options['samples'] ((P,V) shared or (R,P,V)), zero outside its mask."""

        def __init__(self, enopt_config, sampler_index, mask, rng):
            self._cfg = enopt_config
            self._opts = enopt_config.samplers[sampler_index].options
            self._mask = mask
            self._rng = rng
            self.calls = 0

        def generate_samples(self):
            cfg = self._cfg
            R = cfg.realizations.weights.size
            P = cfg.gradient.number_of_perturbations
            V = cfg.variables.initial_values.size
            kind = self._opts.get("kind", "given")
            if kind == "given":
                s = np.array(self._opts["samples"], dtype=np.float64)
                if s.ndim == 2:
                    s = np.repeat(s[np.newaxis], R, axis=0)
                if self._opts.get("cycle"):
                    s = np.roll(s, self.calls, axis=1)
            else:  # "rng": draw from the generator ropt handed us (for reproducibility checks)
                s = self._rng.uniform(-1, 1, size=(R, P, V))
            self.calls += 1
            assert s.shape == (R, P, V), (s.shape, (R, P, V))
            if self._opts.get("retain") and getattr(self, "_table", None) is not None:
                return self._table              # a sampler that hands out, again and again, an array it still owns
            out = np.array(s, dtype=np.float64)
            if self._mask is not None:
                out[..., ~np.asarray(self._mask, dtype=bool)] = 0.0
            if self._opts.get("retain"):
                self._table = out
                if self._opts["retain"] == "read-only":
                    out.setflags(write=False)
            return out

    class DesignPlugin(SamplerPlugin):
        def create(self, enopt_config, sampler_index, mask, rng):
            return DesignSampler(enopt_config, sampler_index, mask, rng)

        def is_supported(self, method):
            return method.lower() in {"design"}

    return DesignPlugin()


_PM = None


def _workarray_plugin():
    from ropt.plugins.optimizer.base import Optimizer, OptimizerPlugin  # noqa: PLC0415

    class WorkArrayOptimizer(Optimizer):
        """A back-end that takes the start vector it is handed as its own work array: it rescales it in place to internal units
        (x10) and updates it in place, the way compiled back-ends do; it asks for a handful of functions and gradients at the
        free part of the vector."""

        def __init__(self, config, optimizer_callback):
            self._config, self._callback = config, optimizer_callback

        def start(self, initial_values):
            work = initial_values
            mask = self._config.variables.mask
            free = np.ones(work.size, dtype=bool) if mask is None else np.asarray(mask, dtype=bool)
            work *= 10.0
            self._callback(work[free] / 10.0, return_functions=True, return_gradients=False)
            for k in range(3):
                work[free] += 0.2 * (k + 1)
                self._callback(work[free] / 10.0, return_functions=True, return_gradients=(k % 2 == 0))

        @property
        def allow_nan(self):
            return False

        @property
        def is_parallel(self):
            return False

    class WorkArrayPlugin(OptimizerPlugin):
        def create(self, config, optimizer_callback):
            return WorkArrayOptimizer(config, optimizer_callback)

        def is_supported(self, method):
            return method.lower() == "workarray"

        @property
        def allows_discovery(self):
            return False

    return WorkArrayPlugin()


def plugin_manager(fresh=False):
    """PluginManager with the injected 'verif/design' sampler (and the 'verif/workarray' optimizer) registered."""
    global _PM  # noqa: PLW0603
    from ropt.plugins import PluginManager  # noqa: PLC0415

    if fresh or _PM is None:
        pm = PluginManager()
        pm.add_plugin("sampler", "verif", _design_plugin())
        pm.add_plugin("optimizer", "verif", _workarray_plugin())
        if fresh:
            return pm
        _PM = pm
    return _PM


# ----------------------------------------------------------------------------- config


def make_config_dict(spec):
    s = spec
    V = s["V"]
    cfg = {
        "variables": {"initial_values": s.get("x0", [0.0] * V)},
        "realizations": {"weights": s["rweights"]},
        "objectives": {"weights": s["oweights"]},
        "gradient": {"number_of_perturbations": s.get("P", 3), "seed": s.get("seed", 1),
                     "merge_realizations": bool(s.get("merge", False))},
    }
    if s.get("lb") is not None:
        cfg["variables"]["lower_bounds"] = s["lb"]
    if s.get("ub") is not None:
        cfg["variables"]["upper_bounds"] = s["ub"]
    if s.get("mask") is not None:
        # s["mask_as_integers"]: the same flags written as 0/1 integers
        cfg["variables"]["mask"] = [int(b) for b in s["mask"]] if s.get("mask_as_integers") else s["mask"]
    if s.get("types") is not None:
        cfg["variables"]["types"] = s["types"]
    if s.get("rmin") is not None:
        cfg["realizations"]["realization_min_success"] = s["rmin"]
    if s.get("pmin") is not None:
        cfg["gradient"]["perturbation_min_success"] = s["pmin"]
    for key, name in (("magnitudes", "perturbation_magnitudes"), ("ptypes", "perturbation_types"), ("btypes", "boundary_types"),
                      ("smap", "samplers")):
        if s.get(key) is not None:
            cfg["gradient"][name] = s[key]
    if s.get("n_con", 0):
        cfg["nonlinear_constraints"] = {"lower_bounds": s["con_lb"], "upper_bounds": s["con_ub"]}
        if s.get("cmap_f") is not None:
            cfg["nonlinear_constraints"]["realization_filters"] = s["cmap_f"]
        if s.get("cmap_est") is not None:
            cfg["nonlinear_constraints"]["function_estimators"] = s["cmap_est"]
    if s.get("omap_f") is not None:
        cfg["objectives"]["realization_filters"] = s["omap_f"]
    if s.get("omap_est") is not None:
        cfg["objectives"]["function_estimators"] = s["omap_est"]
    if s.get("filters"):
        cfg["realization_filters"] = s["filters"]
    if s.get("estimators"):
        # s["estimator_spelling"]: the same methods in another of the spellings the plug-in manager accepts
        k = int(s.get("estimator_spelling", 0))
        cfg["function_estimators"] = [{"method": [m, "default/" + m, "Default/" + m.title(), m.upper()][k % 4]} for m in s["estimators"]]
    if s.get("samplers"):
        cfg["samplers"] = s["samplers"]
    if s.get("linear"):
        cfg["linear_constraints"] = s["linear"]
    if s.get("optimizer"):
        cfg["optimizer"] = s["optimizer"]
    return cfg


def make_config(spec, transforms=None):
    from ropt.config.enopt import EnOptConfig  # noqa: PLC0415

    return EnOptConfig.model_validate(make_config_dict(spec), context=transforms)


# ----------------------------------------------------------------------------- functions


class Ensemble:
    """f_{r,j}(x): 'affine'  a[r,j].x + b[r,j];  'quad'  b + a.x + 0.5*q[j]*|x-c[r]|^2;  'hash' id-encoded pseudo-random."""

    def __init__(self, ens):
        self.kind = ens["kind"]
        self.a = np.array(ens.get("a", []), dtype=np.float64)
        self.b = np.array(ens.get("b", []), dtype=np.float64)
        self.q = np.array(ens.get("q", []), dtype=np.float64)
        self.c = np.array(ens.get("c", []), dtype=np.float64)
        self.salt = float(ens.get("salt", 0.0))
        self.offset = float(ens.get("offset", 0.0))     # large common offset of all outputs (hash kind): cancellation tests
        self.unit = float(ens.get("unit", 1.0))         # all outputs of the hash kind expressed in another unit (1e-9 ... 1e9)

    def value(self, x, r, j):
        x = np.asarray(x, dtype=np.float64)
        if self.kind == "affine":
            return float(self.a[r, j] @ x + self.b[r, j])
        if self.kind == "quad":
            return float(self.b[r, j] + self.a[r, j] @ x + 0.5 * self.q[j] * np.sum((x - self.c[r]) ** 2))
        # hash: smooth but practically injective in (x, r, j)
        t = float(np.dot(x, np.arange(1, x.size + 1) * 0.7310585)) + 1.6180339 * r + 2.7182818 * j + self.salt
        return (3.0 * math.sin(t) + 0.37 * r - 0.53 * j + 0.01 * t + self.offset * (1 + 0.25 * j)) * self.unit

    def values(self, X, rs, F):
        out = np.empty((len(rs), F))
        for i, (x, r) in enumerate(zip(X, rs)):
            for j in range(F):
                out[i, j] = self.value(x, int(r), j)
        return out

    def grad(self, x, r, j):
        if self.kind == "affine":
            return self.a[r, j].copy()
        if self.kind == "quad":
            return self.a[r, j] + self.q[j] * (np.asarray(x) - self.c[r])
        raise NotImplementedError


class Call:
    __slots__ = ("variables", "realizations", "perturbations", "active_objectives", "active_constraints", "active",
                 "objectives", "constraints", "returned", "index")


class RecordingEvaluator:
    """User evaluator: records every request, returns ensemble values with scripted NaN faults.

    nan rules: {"call": k or None (every call), "r": realization, "p": perturbation (-1 = unperturbed row), "col": column
    over objectives+constraints}.  garbage: value written into entries flagged inactive (None = true value)."""

    def __init__(self, spec, *, garbage=None, user_from=None, raise_at=None, reseed_global=False, personality="fresh"):
        self.spec = spec
        self.ens = Ensemble(spec["ensemble"])
        self.n_obj = len(spec["oweights"])
        self.n_con = spec.get("n_con", 0)
        self.calls: list[Call] = []
        self.nan = spec.get("nan", [])
        self.garbage = garbage
        self.raise_at = raise_at or {}
        self.reseed_global = reseed_global
        self.personality = personality
        self._memo = {}
        self._buffers = None

    def __call__(self, variables, context):
        from ropt.evaluator import EvaluatorResult  # noqa: PLC0415

        k = len(self.calls)
        c = Call()
        c.index = k
        c.variables = np.array(variables, copy=True)
        c.realizations = np.array(context.realizations, copy=True)
        c.perturbations = None if context.perturbations is None else np.array(context.perturbations, copy=True)
        c.active_objectives = None if context.active_objectives is None else np.array(context.active_objectives, copy=True)
        c.active_constraints = None if context.active_constraints is None else np.array(context.active_constraints, copy=True)
        c.active = None if context.active is None else np.array(context.active, copy=True)
        self.calls.append(c)
        if k in self.raise_at:
            raise self.raise_at[k]
        if self.reseed_global:
            np.random.seed(k * 7919 + 13)  # noqa: NPY002
            import random  # noqa: PLC0415

            random.seed(k)
        F = self.n_obj + self.n_con
        vals = self.ens.values(c.variables, c.realizations, F)
        perts = c.perturbations if c.perturbations is not None else np.full(len(c.realizations), -1)
        for rule in self.nan:
            if rule.get("call") is not None and rule["call"] != k:
                continue
            if rule.get("row") is not None:
                rows = np.array([rule["row"]]) if rule["row"] < len(c.realizations) else np.array([], dtype=int)   # one row of a batch
            else:
                rows = np.flatnonzero((c.realizations == rule["r"]) & (perts == rule["p"]))
            vals[rows, rule["col"]] = np.nan
        for rule in self.spec.get("inf", []):
            vals[:, rule["col"]] = INF if rule["sign"] > 0 else -INF      # a simulator that overflows in one output
        if self.garbage is not None:
            for j in range(self.n_obj):
                if c.active_objectives is not None:
                    vals[~c.active_objectives[j, c.realizations], j] = self.garbage + j
            for j in range(self.n_con):
                if c.active_constraints is not None:
                    vals[~c.active_constraints[j, c.realizations], self.n_obj + j] = -self.garbage - j
        dt = self.spec.get("out_dtype")
        if dt:
            # a simulator that hands over single-precision arrays: the values it returned are these (exactly), the estimates are
            # computed from them in double precision
            vals = vals.astype(dt).astype(np.float64)
        c.objectives = vals[:, : self.n_obj].copy()
        c.constraints = vals[:, self.n_obj:].copy() if self.n_con else None
        res = EvaluatorResult(objectives=c.objectives.astype(dt) if dt else c.objectives.copy(),
                              constraints=None if c.constraints is None else (c.constraints.astype(dt) if dt else c.constraints.copy()),
                              batch_id=k)
        c.returned = res
        return res

    # convenience
    def rows(self):
        """Yield (call index, row, realization, perturbation, variables) over everything requested."""
        for c in self.calls:
            for i in range(len(c.realizations)):
                yield c.index, i, int(c.realizations[i]), (-1 if c.perturbations is None else int(c.perturbations[i])), c.variables[i]


# ----------------------------------------------------------------------------- generators


def gen_weights(rng, n, zeros=True, wide=False):
    w = rng.integers(1, 6, size=n).astype(float)
    if wide and rng.random() < 0.3:
        w[int(rng.integers(n))] *= 1000.0
    if zeros and n > 1 and rng.random() < 0.4:
        z = rng.random(n) < 0.35
        if z.all():
            z[int(rng.integers(n))] = False
        w[z] = 0.0
    return w.tolist()


def gen_oweights(rng, n, negative=True):
    w = rng.integers(1, 5, size=n).astype(float)
    if negative and n > 1 and rng.random() < 0.3:
        w[int(rng.integers(n))] *= -0.4
        if sum(w) <= 0.5:
            w = np.abs(w)
    if n > 1 and rng.random() < 0.15:
        w[int(rng.integers(n))] = 0.0
        if sum(w) <= 0.5:
            w[0] = 2.0
    return w.tolist()


def gen_filters(rng, R, n_obj, n_con, count):
    """Random list of filter configs (all four kinds) + maps mixing -1 and filter indices."""
    filters = []
    for _ in range(count):
        kinds = ["sort-objective", "cvar-objective"] + (["sort-constraint", "cvar-constraint"] if n_con else [])
        m = kinds[int(rng.integers(len(kinds)))]
        if m.endswith("objective"):
            k = int(rng.integers(1, n_obj + 1))
            sort = [int(x) for x in rng.choice(n_obj, size=k, replace=False)]
        else:
            sort = int(rng.integers(n_con))
        if m.startswith("sort"):
            first = int(rng.integers(0, R))
            last = int(rng.integers(first, R))
            opts = {"sort": sort, "first": first, "last": last}
        else:
            opts = {"sort": sort, "percentile": float(rng.choice([0.25, 0.5, 0.75, 1.0, 0.3, 0.6, 0.9]))}
        filters.append({"method": m, "options": opts})
    omap = [int(x) for x in rng.integers(-1, count, size=n_obj)] if count else None
    cmap = [int(x) for x in rng.integers(-1, count, size=n_con)] if count and n_con else None
    return filters, omap, cmap


def filter_keys(spec, f):
    """Functions (as column indices over objectives+constraints) that filter f ranks on."""
    flt = spec["filters"][f]
    n_obj = len(spec["oweights"])
    s = flt["options"]["sort"]
    if flt["method"].endswith("objective"):
        return set(s)
    return {n_obj + s}


def rmin_of(spec):
    """The realization threshold in force as the documentation states it (an oracle does not read it off the validated
    configuration): the configured value, at most the ensemble size; all realizations when not configured."""
    R = int(spec["R"])
    return R if spec.get("rmin") is None else min(int(spec["rmin"]), R)


def pmin_of(spec):
    """The perturbation threshold in force: the configured value, at most the number of perturbations; all of them when not configured."""
    P = int(spec["P"])
    return P if spec.get("pmin") is None else min(int(spec["pmin"]), P)


def scratch_file(name):
    """A file name inside the scratch directory of the running check (removed by the parent when the check ends)."""
    import os  # noqa: PLC0415
    import tempfile  # noqa: PLC0415

    d = os.environ.get("VERIF_SCRATCH") or ("/dev/shm" if os.path.isdir("/dev/shm") else tempfile.gettempdir())
    return os.path.join(d, f"{name}_{os.getpid()}")
